package main

// C09 (first half) — context-aware I/O helpers of package safeio against Model.IO.
// Scripted source (chunk sizes, zero-length reads, own error at byte k), scripted sink (accepts m bytes,
// then fails; with or without its own ReadFrom), context cancelled after the k-th stream operation.
// Compared with the Lean model: returned count, error kind, bytes in the sink, reads that reached the
// source, stream operations. Monitors independent of the model: what was delivered is an exact prefix
// of the source, no read is started on the source once the context is done, count = bytes delivered.

import (
	"bufio"
	"bytes"
	"context"
	"errors"
	"fmt"
	"io"
	"strconv"
	"strings"

	"github.com/ARM-software/golang-utils/utils/commonerrors"
	"github.com/ARM-software/golang-utils/utils/safeio"

	"verif/harness/hx"
)

func init() { subs["iohelpers"] = ioHelpersMain }

var errSrc = errors.New("source failed")
var errSink = errors.New("sink failed")

type ioCounter struct {
	ops         int
	cancelAfter int // -1: never
	cancel      context.CancelFunc
	ctx         context.Context
}

func (c *ioCounter) op() {
	c.ops++
	if c.cancelAfter >= 0 && c.ops >= c.cancelAfter {
		c.cancel()
	}
}

type ioScriptReader struct {
	data      []byte
	pos       int
	script    []int
	failAt    int
	c         *ioCounter
	reads     int
	lateReads int
}

func (r *ioScriptReader) Read(p []byte) (int, error) {
	if r.c.ctx.Err() != nil {
		r.lateReads++
	}
	r.reads++
	r.c.op()
	if r.failAt >= 0 && r.pos >= r.failAt {
		return 0, errSrc
	}
	if r.pos >= len(r.data) {
		return 0, io.EOF
	}
	want := len(p)
	if len(r.script) > 0 {
		if r.script[0] < want {
			want = r.script[0]
		}
		r.script = r.script[1:]
	}
	if want > len(r.data)-r.pos {
		want = len(r.data) - r.pos
	}
	copy(p, r.data[r.pos:r.pos+want])
	r.pos += want
	return want, nil
}

type scriptSink struct {
	out   []byte
	limit int
	c     *ioCounter
}

func (s *scriptSink) Write(p []byte) (int, error) {
	s.c.op()
	if s.limit >= 0 && len(s.out)+len(p) > s.limit {
		room := s.limit - len(s.out)
		if room < 0 {
			room = 0
		}
		s.out = append(s.out, p[:room]...)
		return room, errSink
	}
	s.out = append(s.out, p...)
	return len(p), nil
}

// scriptSinkRF: a sink with its own ReadFrom (as *os.File or bytes.Buffer have): 512-byte reads
type scriptSinkRF struct{ scriptSink }

func (s *scriptSinkRF) ReadFrom(r io.Reader) (int64, error) {
	var total int64
	buf := make([]byte, 512)
	for {
		n, err := r.Read(buf)
		if n > 0 {
			nw, ew := s.Write(buf[:n])
			total += int64(nw)
			if ew != nil {
				return total, ew
			}
		}
		if err == io.EOF {
			return total, nil
		}
		if err != nil {
			return total, err
		}
	}
}

func ioErrKind(err error) string {
	switch {
	case err == nil:
		return "nil"
	case commonerrors.Any(err, commonerrors.ErrCancelled):
		return "cancelled"
	case commonerrors.Any(err, commonerrors.ErrTimeout):
		return "timeout"
	case errors.Is(err, errSrc):
		return "src"
	case errors.Is(err, errSink):
		return "sink"
	case commonerrors.Any(err, commonerrors.ErrEOF):
		return "eof"
	case commonerrors.Any(err, commonerrors.ErrEmpty):
		return "empty"
	case commonerrors.Any(err, commonerrors.ErrTooLarge):
		return "toolarge"
	}
	return "other:" + err.Error()
}

func optS(v int) string {
	if v < 0 {
		return "-"
	}
	return strconv.Itoa(v)
}

type ioCase struct {
	op                        string
	length                    int
	script                    []int
	failAt, cancelAt, sinkLim int
	rf                        bool
	n                         int64
}

func (c ioCase) line() string {
	sc := "-"
	if len(c.script) > 0 {
		parts := make([]string, len(c.script))
		for i, v := range c.script {
			parts[i] = strconv.Itoa(v)
		}
		sc = strings.Join(parts, ",")
	}
	rf := "0"
	if c.rf {
		rf = "1"
	}
	return fmt.Sprintf("io %s %d %s %s %s %s %s %d", c.op, c.length, sc, optS(c.failAt), optS(c.cancelAt), optS(c.sinkLim), rf, c.n)
}

func parseIOCase(l string) (ioCase, bool) {
	f := strings.Fields(l)
	if len(f) != 9 || f[0] != "io" {
		return ioCase{}, false
	}
	opt := func(s string) int {
		if s == "-" {
			return -1
		}
		v, _ := strconv.Atoi(s)
		return v
	}
	c := ioCase{op: f[1], failAt: opt(f[4]), cancelAt: opt(f[5]), sinkLim: opt(f[6]), rf: f[7] == "1"}
	c.length, _ = strconv.Atoi(f[2])
	if f[3] != "-" {
		for _, s := range strings.Split(f[3], ",") {
			v, _ := strconv.Atoi(s)
			c.script = append(c.script, v)
		}
	}
	c.n, _ = strconv.ParseInt(f[8], 10, 64)
	return c, true
}

// runIOCase executes the real helper; returns the observation line and monitor failures
func runIOCase(c ioCase, flavour string) (obs string, mon []string) {
	data := make([]byte, c.length)
	for i := range data {
		data[i] = byte(i % 251)
	}
	ctx, cancel := context.WithCancel(context.Background())
	defer cancel()
	cnt := &ioCounter{cancelAfter: c.cancelAt, cancel: cancel, ctx: ctx}
	if c.cancelAt == 0 {
		cancel()
	}
	src := &ioScriptReader{data: data, script: append([]int{}, c.script...), failAt: c.failAt, c: cnt}
	// the reader handed to the helper: the scripted stream itself, or the same stream behind a reader that ALSO knows
	// how to write itself out (io.WriterTo: *bufio.Reader here, like *os.File) — transparent for a copy through
	// buffers of at least its own size, so the observation must be the same
	var srcR io.Reader = src
	if flavour == "writerTo" {
		srcR = bufio.NewReaderSize(src, 16)
	}
	var count int64
	var err error
	var delivered []byte
	func() {
		defer func() {
			if r := recover(); r != nil {
				err = fmt.Errorf("panic: %v", r)
			}
		}()
		switch c.op {
		case "copydata", "copyn":
			var dst io.Writer
			plain := &scriptSink{limit: c.sinkLim, c: cnt}
			rf := &scriptSinkRF{scriptSink{limit: c.sinkLim, c: cnt}}
			if c.rf {
				dst = rf
			} else {
				dst = plain
			}
			if c.op == "copydata" {
				count, err = safeio.CopyDataWithContext(ctx, srcR, dst)
			} else {
				count, err = safeio.CopyNWithContext(ctx, srcR, dst, c.n)
			}
			if c.rf {
				delivered = rf.out
			} else {
				delivered = plain.out
			}
			if count != int64(len(delivered)) {
				mon = append(mon, fmt.Sprintf("count-differs-from-bytes-delivered: count=%d delivered=%d", count, len(delivered)))
			}
			if c.op == "copyn" && err == nil && c.n >= 0 && count != c.n {
				mon = append(mon, fmt.Sprintf("copyn-without-error-transferred-%d-instead-of-%d", count, c.n))
			}
		case "readatmost":
			var content []byte
			content, err = safeio.ReadAtMost(ctx, src, c.n, -1)
			delivered = content
			count = int64(len(content))
			if c.n >= 0 && int64(len(content)) > c.n {
				mon = append(mon, fmt.Sprintf("readatmost-returned-%d-bytes-for-max-%d", len(content), c.n))
			}
			if err == nil && c.failAt < 0 && c.cancelAt < 0 {
				want := int64(c.length)
				if c.n >= 0 && c.n < want {
					want = c.n
				}
				if int64(len(content)) != want {
					mon = append(mon, fmt.Sprintf("readatmost-returned-%d-bytes-instead-of-%d", len(content), want))
				}
			}
		}
	}()
	if !bytes.Equal(delivered, data[:min(len(delivered), len(data))]) || len(delivered) > len(data) {
		mon = append(mon, "delivered-bytes-are-not-a-prefix-of-the-source")
	}
	if src.lateReads > 0 {
		mon = append(mon, fmt.Sprintf("read-started-after-the-context-ended: %d", src.lateReads))
	}
	outLen := len(delivered)
	if c.op == "readatmost" {
		// the model reports what reached the buffer; the call returns it only on success
		outLen = -1
	}
	obs = fmt.Sprintf("%d %s %d %d %d %d", count, ioErrKind(err), outLen, src.reads, src.lateReads, cnt.ops)
	return
}

const ioHelpersRule = "(A) CopyDataWithContext / CopyNWithContext / ReadAtMost over scripted streams: source length in {0,1,2,511..513,1000,32767..32769,65536,100000,2^20} or random < 70000; " +
	"chunk script (sizes 0..512 or 0..40000, zero-length reads), source error at byte k, context cancelled after the k-th stream operation (k=0: before the call), sink accepting m bytes then failing, " +
	"sink with / without ReadFrom, n / max negative, 0, below, equal, above the length. non-trivial = at least one of script / failure / cancellation / limit / sink failure is active; distinct = the case line. "

func ioHelpersMain(args []string) {
	o := hx.ParseOpts(args, "facts")
	rep := hx.NewReport(ioHelpersRule)
	drv, err := hx.StartDriver(o.Driver)
	if err != nil {
		fmt.Println("driver:", err)
	}
	defer drv.Close()
	ioHelpersRun(o, rep, drv)
	rep.Write(o.Report, drv)
	if len(rep.Failures) > 0 {
		fmt.Printf("failures: %d\n", len(rep.Failures))
	}
}

func ioHelpersRun(o *hx.Opts, rep *hx.Report, drv *hx.Driver) {
	rnd := hx.NewRand(o.Seed)
	n := 3000
	if o.Thorough() {
		n = 60000
	}
	lengths := []int{0, 1, 2, 511, 512, 513, 1000, 32767, 32768, 32769, 65536, 100000, 1 << 20}
	var cases []ioCase
	if o.Replay != "" {
		for _, l := range hx.ReplayCases(o.Replay, "io ") {
			if c, ok := parseIOCase(l); ok {
				cases = append(cases, c)
			}
		}
		n = 0
	}
	for i := 0; i < n; i++ {
		c := ioCase{op: hx.Pick(rnd, []string{"copydata", "copyn", "readatmost"}), failAt: -1, cancelAt: -1, sinkLim: -1}
		if rnd.Chance(40) {
			c.length = hx.Pick(rnd, lengths[:12])
			if rnd.Chance(3) {
				c.length = 1 << 20
			}
		} else if rnd.Chance(50) {
			c.length = rnd.Intn(2000)
		} else {
			c.length = rnd.Intn(70000)
		}
		c.rf = rnd.Bool()
		small := c.op == "readatmost" || c.rf || rnd.Bool()
		// script: for bytes.Buffer sinks the read sizes must be fixed by the script (≤ 512), for every read
		if c.op == "readatmost" || rnd.Chance(70) {
			maxChunk := 40000
			if small {
				maxChunk = 512
			}
			total := 0
			for total < c.length+1024 || len(c.script) < 4 {
				ch := 1 + rnd.Intn(maxChunk)
				if rnd.Chance(30) {
					ch = 1 + rnd.Intn(16)
				}
				if c.length > 20000 {
					ch = maxChunk - rnd.Intn(maxChunk/4+1) // keep the script short for big sources
				}
				if rnd.Chance(6) {
					ch = 0
				}
				c.script = append(c.script, ch)
				total += ch
			}
		}
		if rnd.Chance(25) {
			c.failAt = rnd.Intn(c.length + 2)
		}
		if rnd.Chance(35) {
			switch rnd.Intn(4) {
			case 0:
				c.cancelAt = 0
			case 1:
				c.cancelAt = 1 + rnd.Intn(4)
			default:
				c.cancelAt = 1 + rnd.Intn(2*len(c.script)+8)
			}
		}
		if c.op != "readatmost" && rnd.Chance(20) {
			c.sinkLim = rnd.Intn(c.length + 2)
		}
		switch rnd.Intn(6) {
		case 0:
			c.n = -1 - int64(rnd.Intn(3))
		case 1:
			c.n = 0
		case 2:
			c.n = int64(c.length)
		case 3:
			c.n = int64(c.length) + 1 + int64(rnd.Intn(1000))
		default:
			c.n = int64(rnd.Intn(c.length + 1))
		}
		if c.op == "copydata" {
			c.n = 0
		}
		cases = append(cases, c)
	}
	var lines, obs []string
	for _, c := range cases {
		l := c.line()
		ob, mon := runIOCase(c, "plain")
		if c.op == "copydata" && !c.rf {
			// the same copy from a source that implements io.WriterTo over the same stream
			ob2, mon2 := runIOCase(c, "writerTo")
			rep.Hist("source-flavour:io.WriterTo")
			for _, m := range mon2 {
				rep.Fail(hx.Failure{Kind: "impl-violates-property", Key: strings.SplitN(m, ":", 2)[0] + ":source-with-WriterTo", Case: l + " [source behind a *bufio.Reader]", Expected: "prefix / count / no-read-after-cancel", Observed: m + " | " + ob2})
			}
			sem := func(o string) string { // count, error kind, bytes delivered, reads after the context ended
				f := strings.Fields(o)
				if len(f) < 6 {
					return o
				}
				return strings.Join([]string{f[0], f[1], f[2], f[4]}, " ")
			}
			if sem(ob2) != sem(ob) && len(mon2) == 0 {
				rep.Fail(hx.Failure{Kind: "impl-violates-property", Key: "result-depends-on-the-source-type", Case: l + " [source behind a *bufio.Reader]", Expected: "as with the bare stream: " + ob, Observed: ob2})
			}
		}
		nontrivial := len(c.script) > 0 || c.failAt >= 0 || c.cancelAt >= 0 || c.sinkLim >= 0
		rep.Eval(l, nontrivial)
		rep.Hist("op:" + c.op)
		rep.Hist("result:" + strings.Fields(ob)[1])
		if c.cancelAt == 0 {
			rep.Hist("context-done-before-the-call")
		} else if c.cancelAt > 0 {
			rep.Hist("context-ends-during-the-call")
		}
		for _, m := range mon {
			rep.Fail(hx.Failure{Kind: "impl-violates-property", Key: strings.SplitN(m, ":", 2)[0], Case: l, Expected: "prefix / count / no-read-after-cancel", Observed: m + " | " + ob})
		}
		if c.length > 40000 {
			// the list-based Lean model is quadratic in the source length: large sources are judged by the monitors only
			rep.Hist("monitors-only:source-above-40000-bytes")
			continue
		}
		lines = append(lines, l)
		obs = append(obs, ob)
	}
	if drv != nil {
		ans, err := drv.Ask(lines)
		if err != nil {
			rep.Fail(hx.Failure{Kind: "harness-error", Key: "driver", Detail: err.Error()})
		}
		for i, a := range ans {
			want := a
			if strings.HasPrefix(lines[i], "io readatmost") {
				f := strings.Fields(a)
				if len(f) == 6 {
					f[2] = "-1"
					want = strings.Join(f, " ")
				}
			}
			if want != obs[i] {
				rep.Fail(hx.Failure{Kind: "model-impl-divergence", Key: "io:" + strings.Fields(lines[i])[1], Case: lines[i], Expected: "model: " + want, Observed: "impl:  " + obs[i]})
			} else if i < 6 {
				rep.Sample(map[string]string{"line": lines[i][:min(len(lines[i]), 200)], "count err outLen reads lateReads ops": a})
			}
		}
	}
}
