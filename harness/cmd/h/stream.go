package main

// C18 — subprocess output fidelity.
//  A. exact correspondence: the REAL logStreamer (hook NewLogStreamerForVerification) is fed chunk
//     sequences; the messages it logs are compared with Model.Streamer and with the property
//     (non-empty lines of the whole stream).
//  B. end to end: Execute() on a child process (this binary re-invoked as `h child <script>`):
//     exit status <-> error, start/end messages and their position, every line per stream,
//     Output(), extra environment, cancellation kind.

import (
	"context"
	"encoding/hex"
	"fmt"
	"os"
	"strconv"
	"strings"
	"sync"
	"syscall"
	"time"

	"github.com/ARM-software/golang-utils/utils/commonerrors"
	"github.com/ARM-software/golang-utils/utils/subprocess"

	"verif/harness/hx"
)

func init() {
	subs["stream"] = streamMain
	subs["child"] = childMain
}

// ---------------------------------------------------------------- recording loggers

type recMsg struct {
	err  bool
	text string
}

type recLoggers struct {
	mu    sync.Mutex
	msgs  []recMsg
	delay time.Duration // a slow sink: every message takes this long to record
}

func (r *recLoggers) Close() error                 { return nil }
func (r *recLoggers) Check() error                 { return nil }
func (r *recLoggers) SetLogSource(string) error    { return nil }
func (r *recLoggers) SetLoggerSource(string) error { return nil }
func (r *recLoggers) Log(output ...interface{}) {
	if r.delay > 0 {
		time.Sleep(r.delay)
	}
	r.mu.Lock()
	r.msgs = append(r.msgs, recMsg{false, fmt.Sprint(output...)})
	r.mu.Unlock()
}
func (r *recLoggers) LogError(e ...interface{}) {
	if r.delay > 0 {
		time.Sleep(r.delay)
	}
	r.mu.Lock()
	r.msgs = append(r.msgs, recMsg{true, fmt.Sprint(e...)})
	r.mu.Unlock()
}

// ---------------------------------------------------------------- child

// script: `;`-separated steps: o:<hex>:<pauseMs>  e:<hex>:<pauseMs>  env:<NAME>  exit:<code>  sig:<n>
func childMain(args []string) {
	if len(args) < 1 {
		os.Exit(99)
	}
	spec := args[0]
	if strings.HasPrefix(spec, "@") {
		// long scripts come in a file (a single argument is limited to 128 KiB)
		b, err := os.ReadFile(spec[1:])
		if err != nil {
			os.Exit(98)
		}
		spec = string(b)
	}
	for _, st := range strings.Split(spec, ";") {
		f := strings.Split(st, ":")
		switch f[0] {
		case "o", "e":
			b, _ := hex.DecodeString(f[1])
			w := os.Stdout
			if f[0] == "e" {
				w = os.Stderr
			}
			_, _ = w.Write(b)
			if ms, _ := strconv.Atoi(f[2]); ms > 0 {
				time.Sleep(time.Duration(ms) * time.Millisecond)
			}
		case "env":
			fmt.Fprintf(os.Stdout, "%s=%s\n", f[1], os.Getenv(f[1]))
		case "sleep":
			ms, _ := strconv.Atoi(f[1])
			time.Sleep(time.Duration(ms) * time.Millisecond)
		case "exit":
			c, _ := strconv.Atoi(f[1])
			os.Exit(c)
		case "sig":
			n, _ := strconv.Atoi(f[1])
			_ = syscall.Kill(os.Getpid(), syscall.Signal(n))
			time.Sleep(5 * time.Second)
		}
	}
	os.Exit(0)
}

// ---------------------------------------------------------------- helpers

func nonEmptyLines(s string) []string {
	var out []string
	for _, l := range strings.Split(s, "\n") {
		if l != "" {
			out = append(out, l)
		}
	}
	return out
}

// cutDifferently: same bytes as the expected lines, but some line is delivered in several pieces.
func cutDifferently(got, want []string) bool {
	i := 0
	for _, w := range want {
		acc := ""
		for acc != w {
			if i >= len(got) || got[i] == "" || !strings.HasPrefix(w, acc+got[i]) {
				return false
			}
			acc += got[i]
			i++
		}
	}
	return i == len(got)
}

func eqStr(a, b []string) bool {
	if len(a) != len(b) {
		return false
	}
	for i := range a {
		if a[i] != b[i] {
			return false
		}
	}
	return true
}

func encBytes(s string) string {
	var bs []string
	for i := 0; i < len(s); i++ {
		bs = append(bs, strconv.Itoa(int(s[i])))
	}
	return strings.Join(bs, ".")
}

func genStream(rnd *hx.Rand, maxLines, maxLen int) string {
	var b strings.Builder
	n := rnd.Intn(maxLines + 1)
	for i := 0; i < n; i++ {
		l := rnd.Intn(maxLen + 1)
		if rnd.Chance(15) {
			l = 0
		}
		for j := 0; j < l; j++ {
			const alphabet = "abcdefgh \t:%é\r" // é is two bytes: the carriage return is byte 14
			b.WriteByte(alphabet[rnd.Intn(len(alphabet))])
		}
		if i < n-1 || rnd.Chance(70) {
			if rnd.Chance(10) {
				b.WriteByte('\r') // CRLF line ending: the carriage return belongs to the line
			}
			b.WriteByte('\n')
		}
	}
	return b.String()
}

func cutAt(rnd *hx.Rand, s string, lineAligned bool) []string {
	var chunks []string
	for len(s) > 0 {
		k := 1 + rnd.Intn(len(s))
		if lineAligned {
			if j := strings.IndexByte(s[k-1:], '\n'); j >= 0 {
				k = k - 1 + j + 1
			} else {
				k = len(s)
			}
		}
		chunks = append(chunks, s[:k])
		s = s[k:]
		if rnd.Chance(8) {
			chunks = append(chunks, "")
		}
	}
	return chunks
}

func streamMain(args []string) {
	o := hx.ParseOpts(args)
	rep := hx.NewReport("A: streams of 0..8 lines (0..12 bytes, empty lines, optional final newline) cut into chunks at random offsets (50%) or only after newlines (50%), " +
		"fed to the real logStreamer for stdout and stderr; B: child processes with exit codes 0..255 / death by signal, per-stream write scripts with and without pauses, " +
		"large outputs (thorough), extra environment, cancellation. non-trivial = at least two chunks / two writes; distinct = (stream, chunking) resp. script.")
	drv, err := hx.StartDriver(o.Driver)
	if err != nil {
		fmt.Println("driver:", err)
	}
	defer drv.Close()
	rnd := hx.NewRand(o.Seed)

	// ---- A: real streamer on chunk sequences -------------------------------------------------
	nA := 3000
	if o.Thorough() {
		nA = 150000
	}
	var lines []string
	var gots []string
	for i := 0; i < nA; i++ {
		s := genStream(rnd, 8, 12)
		if i%150 == 7 { // long lines: chunks far above any internal buffer size
			s = genStream(rnd, 3, []int{4095, 4096, 4097, 32768, 70000}[rnd.Intn(5)]*2)
			rep.Hist("A:long-lines")
		}
		aligned := rnd.Bool()
		chunks := cutAt(rnd, s, aligned)
		isErr := rnd.Bool()
		rec := &recLoggers{}
		w := subprocess.NewLogStreamerForVerification(context.Background(), isErr, rec)
		for _, c := range chunks {
			n, err := w.Write([]byte(c))
			if err != nil || n != len(c) {
				rep.Fail(hx.Failure{Kind: "impl-violates-property", Key: "streamer-write-result", Case: fmt.Sprintf("%q", chunks), Observed: fmt.Sprint(n, err)})
			}
		}
		var got []string
		for _, m := range rec.msgs {
			got = append(got, m.text)
			if m.err != isErr {
				rep.Fail(hx.Failure{Kind: "impl-violates-property", Key: "wrong-stream", Case: fmt.Sprintf("%q isErr=%v", chunks, isErr)})
			}
		}
		want := nonEmptyLines(s)
		rep.Eval(fmt.Sprintf("A %q", chunks), len(chunks) >= 2)
		if aligned {
			rep.Hist("A:line-aligned-chunks")
		} else {
			rep.Hist("A:arbitrary-chunks")
		}
		if !eqStr(got, want) {
			key := "lines-mismatch"
			if cutDifferently(got, want) {
				key = "line-split-across-chunks"
			}
			rep.Fail(hx.Failure{Kind: "impl-violates-property", Key: key, Case: fmt.Sprintf("streamer chunks=%q", chunks),
				Expected: fmt.Sprintf("%q", want), Observed: fmt.Sprintf("%q", got), Detail: "messages logged differ from the non-empty lines of the stream"})
		}
		var enc []string
		for _, c := range chunks {
			enc = append(enc, encBytes(c))
		}
		if len(chunks) > 0 {
			lines = append(lines, "stream "+strings.Join(enc, "|"))
			var g []string
			for _, m := range got {
				g = append(g, encBytes(m))
			}
			if len(g) == 0 {
				gots = append(gots, "-")
			} else {
				gots = append(gots, strings.Join(g, "|"))
			}
		}
	}
	if drv != nil {
		ans, err := drv.Ask(lines)
		if err != nil {
			rep.Fail(hx.Failure{Kind: "harness-error", Key: "driver", Detail: err.Error()})
		}
		for i, a := range ans {
			if a != gots[i] {
				rep.Fail(hx.Failure{Kind: "model-impl-divergence", Key: "streamer-messages", Case: lines[i], Expected: "model: " + a, Observed: "impl: " + gots[i]})
			} else {
				rep.Hist("model=impl")
			}
		}
		if len(ans) > 1 {
			rep.Sample(map[string]string{"line": lines[1], "model": ans[1]})
		}
	}

	// ---- B: end to end ---------------------------------------------------------------------------
	exe, _ := os.Executable()
	nB := 60
	if o.Thorough() {
		nB = 1200
	}
	for i := 0; i < nB; i++ {
		var steps []string
		var outS, errS strings.Builder
		splitRisk := false
		nw := rnd.Intn(6)
		big := (o.Thorough() && i%40 == 0) || i == 3
		for j := 0; j < nw; j++ {
			s := genStream(rnd, 5, 20)
			if big {
				s = genStream(rnd, 400, 300)
			}
			// by default every write ends with a newline (so no line straddles two writes); 25% do not
			if !strings.HasSuffix(s, "\n") && s != "" && rnd.Chance(75) {
				s += "\n"
			}
			pause := 0
			if rnd.Chance(30) {
				pause = 30
			}
			which := "o"
			if rnd.Chance(35) {
				which = "e"
			}
			if which == "o" {
				if outS.Len() > 0 && !strings.HasSuffix(outS.String(), "\n") && !strings.HasPrefix(s, "\n") && s != "" {
					splitRisk = true
				}
				outS.WriteString(s)
			} else {
				if errS.Len() > 0 && !strings.HasSuffix(errS.String(), "\n") && !strings.HasPrefix(s, "\n") && s != "" {
					splitRisk = true
				}
				errS.WriteString(s)
			}
			steps = append(steps, which+":"+hex.EncodeToString([]byte(s))+":"+strconv.Itoa(pause))
		}
		if big {
			splitRisk = true
		}
		code := 0
		sig := 0
		switch x := rnd.Intn(10); {
		case x < 4:
		case x < 9:
			code = []int{1, 2, 3, 42, 127, 128, 254, 255}[rnd.Intn(8)]
			steps = append(steps, "exit:"+strconv.Itoa(code))
		default:
			sig = []int{9, 15, 2}[rnd.Intn(3)]
			steps = append(steps, "sig:"+strconv.Itoa(sig))
		}
		withEnv := rnd.Chance(25)
		if withEnv {
			steps = append([]string{"env:VERIF_EXTRA"}, steps...)
		}
		script := strings.Join(steps, ";")
		rec := &recLoggers{}
		var env []string
		if withEnv {
			env = []string{"VERIF_EXTRA=value " + strconv.Itoa(i)}
		}
		scriptArg := script
		if len(script) > 60000 {
			f, ferr := os.CreateTemp("", "verif-stream-script")
			if ferr == nil {
				_, _ = f.WriteString(script)
				_ = f.Close()
				scriptArg = "@" + f.Name()
				defer os.Remove(f.Name())
			}
		}
		var runErr error
		if i%3 == 2 {
			// the one-call entry points
			if withEnv {
				runErr = subprocess.ExecuteWithEnvironment(context.Background(), rec, env, "START", "SUCCESS", "FAILURE", exe, "child", scriptArg)
			} else {
				runErr = subprocess.Execute(context.Background(), rec, "START", "SUCCESS", "FAILURE", exe, "child", scriptArg)
			}
			rep.Hist("B:entry=Execute()")
		} else {
			p, err := subprocess.NewWithEnvironment(context.Background(), rec, env, "START", "SUCCESS", "FAILURE", exe, "child", scriptArg)
			if err != nil {
				rep.Fail(hx.Failure{Kind: "harness-error", Key: "subprocess-new", Detail: err.Error()})
				continue
			}
			runErr = p.Execute()
			rep.Hist("B:entry=New+Execute")
		}
		rep.Eval("B "+script, nw >= 2)
		rep.Hist(fmt.Sprintf("B:exit=%v sig=%v", code != 0, sig != 0))
		okExpected := code == 0 && sig == 0
		if (runErr == nil) != okExpected {
			rep.Fail(hx.Failure{Kind: "impl-violates-property", Key: "status-mismatch", Case: script, Expected: fmt.Sprint("nil error: ", okExpected), Observed: fmt.Sprint(runErr)})
		}
		msgs := rec.msgs
		if len(msgs) < 2 || msgs[0].text != "START" || msgs[0].err {
			rep.Fail(hx.Failure{Kind: "impl-violates-property", Key: "start-message", Case: script, Observed: fmt.Sprintf("%v", msgs)})
			continue
		}
		last := msgs[len(msgs)-1]
		if okExpected && (last.text != "SUCCESS" || last.err) || !okExpected && (!strings.HasPrefix(last.text, "FAILURE") || !last.err) {
			rep.Fail(hx.Failure{Kind: "impl-violates-property", Key: "end-message", Case: script, Observed: fmt.Sprintf("%v", last)})
		}
		var gotOut, gotErr []string
		for _, m := range msgs[1 : len(msgs)-1] {
			if m.text == "SUCCESS" || strings.HasPrefix(m.text, "FAILURE") || m.text == "START" {
				rep.Fail(hx.Failure{Kind: "impl-violates-property", Key: "extra-start-or-end-message", Case: script, Observed: fmt.Sprintf("%v", msgs)})
			}
			if m.err {
				gotErr = append(gotErr, m.text)
			} else {
				gotOut = append(gotOut, m.text)
			}
		}
		wantOut := nonEmptyLines(outS.String())
		if withEnv {
			wantOut = append([]string{"VERIF_EXTRA=value " + strconv.Itoa(i)}, wantOut...)
		}
		for _, pr := range []struct {
			name      string
			got, want []string
		}{{"stdout", gotOut, wantOut}, {"stderr", gotErr, nonEmptyLines(errS.String())}} {
			if eqStr(pr.got, pr.want) {
				continue
			}
			key := "lines-mismatch"
			if cutDifferently(pr.got, pr.want) {
				key = "line-split-across-chunks"
			}
			if key == "line-split-across-chunks" && !splitRisk {
				key = "line-split-without-straddling-write" // would be a new phenomenon
			}
			rep.Fail(hx.Failure{Kind: "impl-violates-property", Key: key, Case: "child " + script + " [" + pr.name + "]",
				Expected: fmt.Sprintf("%.300q", pr.want), Observed: fmt.Sprintf("%.300q", pr.got)})
		}
	}
	// Output() / OutputWithEnvironment(): everything the child printed on BOTH streams, whatever its exit status
	for i := 0; i < nB/2+6; i++ {
		mkLines := func(tag string) (string, []string) {
			var sb strings.Builder
			var ls []string
			for k, n := 0, rnd.Intn(5); k < n; k++ {
				l := fmt.Sprintf("%s%d-%x", tag, k, rnd.U64()%0xffffff)
				ls = append(ls, l)
				sb.WriteString(l + "\n")
				if rnd.Chance(20) {
					sb.WriteString("\n") // an empty line: dropped
				}
			}
			return sb.String(), ls
		}
		so, wantO := mkLines("out")
		se, wantE := mkLines("err")
		var steps []string
		withEnv := rnd.Chance(30)
		if withEnv {
			steps = append(steps, "env:VERIF_EXTRA")
			wantO = append([]string{"VERIF_EXTRA=output value " + strconv.Itoa(i)}, wantO...)
		}
		if so != "" {
			steps = append(steps, "o:"+hex.EncodeToString([]byte(so))+":0")
		}
		if se != "" {
			steps = append(steps, "e:"+hex.EncodeToString([]byte(se))+":0")
		}
		code, sig := 0, 0
		switch x := i % 5; {
		case x == 1 || x == 2:
			code = []int{1, 3, 42, 255}[rnd.Intn(4)]
			steps = append(steps, "exit:"+strconv.Itoa(code))
		case x == 3:
			sig = []int{9, 15}[rnd.Intn(2)]
			steps = append(steps, "sig:"+strconv.Itoa(sig))
		}
		script := strings.Join(steps, ";")
		rec := &recLoggers{}
		var out string
		var err error
		if withEnv {
			out, err = subprocess.OutputWithEnvironment(context.Background(), rec, []string{"VERIF_EXTRA=output value " + strconv.Itoa(i)}, exe, "child", script)
		} else {
			out, err = subprocess.Output(context.Background(), rec, exe, "child", script)
		}
		caseTxt := fmt.Sprintf("Output child %s", script)
		rep.Eval(caseTxt, len(wantO)+len(wantE) > 0)
		rep.Hist(fmt.Sprintf("B:Output() exit=%v sig=%v env=%v", code != 0, sig != 0, withEnv))
		if (err == nil) != (code == 0 && sig == 0) {
			rep.Fail(hx.Failure{Kind: "impl-violates-property", Key: "output-status-mismatch", Case: caseTxt, Expected: fmt.Sprint("nil error: ", code == 0 && sig == 0), Observed: fmt.Sprint(err)})
		}
		got := nonEmptyLines(out)
		var gotO, gotE, other []string
		for _, l := range got {
			switch {
			case strings.HasPrefix(l, "out") || strings.HasPrefix(l, "VERIF_EXTRA="):
				gotO = append(gotO, l)
			case strings.HasPrefix(l, "err"):
				gotE = append(gotE, l)
			default:
				other = append(other, l)
			}
		}
		if !eqStr(gotO, wantO) || !eqStr(gotE, wantE) || len(other) > 0 {
			key := "output-mismatch"
			if code != 0 || sig != 0 {
				key = "output-mismatch:unsuccessful-child"
			}
			rep.Fail(hx.Failure{Kind: "impl-violates-property", Key: key, Case: caseTxt,
				Expected: fmt.Sprintf("stdout lines %q and stderr lines %q, each in order", wantO, wantE), Observed: fmt.Sprintf("%q (error: %v)", out, err)})
		}
	}
	// output that is still on its way long after the child has exited: a slow logger draining a final burst, and a
	// background descendant that writes to the inherited stream after the child's exit — every line, and success
	{
		var sb strings.Builder
		var want []string
		for k := 0; k < 2500; k++ {
			l := fmt.Sprintf("burst-line-%04d", k)
			want = append(want, l)
			sb.WriteString(l + "\n")
		}
		rec := &recLoggers{delay: 400 * time.Microsecond}
		f, ferr := os.CreateTemp("", "verif-stream-burst")
		if ferr == nil {
			_, _ = f.WriteString("o:" + hex.EncodeToString([]byte(sb.String())) + ":0")
			_ = f.Close()
			defer os.Remove(f.Name())
			p, err := subprocess.New(context.Background(), rec, "START", "SUCCESS", "FAILURE", exe, "child", "@"+f.Name())
			if err == nil {
				t0 := time.Now()
				runErr := p.Execute()
				caseTxt := "child writing 2500 lines at once and exiting 0, logger taking 400µs per line"
				rep.Eval(caseTxt, true)
				rep.Hist("B:slow-logger")
				var got []string
				last := ""
				for _, m := range rec.msgs {
					if strings.HasPrefix(m.text, "burst-line-") {
						got = append(got, m.text)
					}
					last = m.text
				}
				if runErr != nil || !eqStr(got, want) || last != "SUCCESS" {
					rep.Fail(hx.Failure{Kind: "impl-violates-property", Key: "output-lost-when-the-logger-is-slow", Case: caseTxt,
						Expected: "nil, 2500 lines, then the success message", Observed: fmt.Sprintf("error %v, %d lines, last message %.60q, after %v", runErr, len(got), last, time.Since(t0).Round(time.Millisecond))})
				}
			}
		}
		rec2 := &recLoggers{}
		p2, err := subprocess.New(context.Background(), rec2, "START", "SUCCESS", "FAILURE", "sh", "-c", "echo first; (sleep 0.9; echo late) & exit 0")
		if err == nil {
			runErr := p2.Execute()
			caseTxt := "sh -c 'echo first; (sleep 0.9; echo late) & exit 0'"
			rep.Eval(caseTxt, true)
			rep.Hist("B:late-background-writer")
			var got []string
			for _, m := range rec2.msgs {
				if !m.err && m.text != "START" && m.text != "SUCCESS" {
					got = append(got, m.text)
				}
			}
			if runErr != nil || !eqStr(got, []string{"first", "late"}) {
				rep.Fail(hx.Failure{Kind: "impl-violates-property", Key: "output-lost-after-the-exit-of-the-child", Case: caseTxt,
					Expected: "nil and the lines first, late", Observed: fmt.Sprintf("error %v, lines %q", runErr, got)})
			}
		}
	}
	// cancellation (context cancelled / Cancel() from another goroutine while Execute runs) => context kind, and still exactly
	// one end message — the failure one — once everything has settled
	for i := 0; i < 4; i++ {
		ctx, cancel := context.WithCancel(context.Background())
		rec := &recLoggers{}
		p, err := subprocess.New(ctx, rec, "START", "SUCCESS", "FAILURE", exe, "child", "o:"+hex.EncodeToString([]byte("x\n"))+":0;sleep:3000")
		if err != nil {
			cancel()
			continue
		}
		how := "context cancelled"
		if i%2 == 1 {
			how = "Cancel()"
		}
		go func() {
			time.Sleep(150 * time.Millisecond)
			if i%2 == 1 {
				p.Cancel()
			} else {
				cancel()
			}
		}()
		t0 := time.Now()
		runErr := p.Execute()
		took := time.Since(t0)
		time.Sleep(200 * time.Millisecond) // whatever reacts to the end of the context has had its turn
		cancel()
		caseTxt := "Execute(child printing a line then sleeping 3 s), " + how + " after 150 ms"
		rep.Eval(fmt.Sprint("cancel ", i), true)
		rep.Hist("B:cancelled")
		if runErr == nil || took > 2500*time.Millisecond {
			rep.Fail(hx.Failure{Kind: "impl-violates-property", Key: "cancel-not-reported", Case: caseTxt, Observed: fmt.Sprint(runErr, took)})
		} else if !commonerrors.Any(runErr, commonerrors.ErrCancelled, commonerrors.ErrTimeout) {
			rep.Fail(hx.Failure{Kind: "impl-violates-property", Key: "cancel-error-not-context-kind", Case: caseTxt,
				Expected: "an error of kind cancelled/timeout", Observed: runErr.Error()})
		}
		rec.mu.Lock()
		var ends []string
		starts := 0
		for _, m := range rec.msgs {
			switch {
			case m.text == "SUCCESS" || strings.HasPrefix(m.text, "FAILURE"):
				ends = append(ends, m.text)
			case m.text == "START":
				starts++
			}
		}
		rec.mu.Unlock()
		if starts != 1 || len(ends) != 1 || !strings.HasPrefix(ends[0], "FAILURE") {
			rep.Fail(hx.Failure{Kind: "impl-violates-property", Key: "end-message:interrupted-execute", Case: caseTxt,
				Expected: "one start message and exactly one end message: the failure one", Observed: fmt.Sprintf("%d start message(s), end messages %q", starts, ends)})
		}
	}
	rep.Write(o.Report, drv)
}
