package main

// C19 — paginators: real AbstractPaginator-based paginators (static, dynamic, and the two stream
// paginators over streams without future) vs Model.Page, plus property monitors that do not use
// the model (yield = prefix of the concatenation, drain = everything, nothing after Stop, HasNext
// idempotent, constructor failures reported).

import (
	"context"
	"errors"
	"fmt"
	"strconv"
	"strings"
	"time"

	"github.com/ARM-software/golang-utils/utils/collection/pagination"

	"verif/harness/hx"
)

func init() { subs["page"] = pageMain }

type pgSpec struct {
	items   []int
	hasNext bool
	// stream paginators only: the link to the following page is the FUTURE link, not the next link (the page that
	// follows is immediately available: for a finite chain the iteration is the same as through next links)
	viaFuture bool
}

type pgColl struct {
	pages    []pgSpec
	budget   int // number of fetches that succeed; -1 = unlimited
	fetches  int
	iterFail bool // GetItemIterator of the first page fails
}

type mIter struct {
	items []int
	pos   int
}

func (m *mIter) HasNext() bool { return m.pos < len(m.items) }
func (m *mIter) GetNext() (interface{}, error) {
	if m.pos >= len(m.items) {
		return nil, errors.New("iterator exhausted")
	}
	m.pos++
	return m.items[m.pos-1], nil
}

type mPage struct {
	c   *pgColl
	idx int
}

func (p *mPage) HasNext() bool { return p.c.pages[p.idx].hasNext && !p.c.pages[p.idx].viaFuture }
func (p *mPage) GetItemIterator() (pagination.IIterator, error) {
	if p.c.iterFail && p.idx == 0 {
		return nil, errors.New("cannot create iterator")
	}
	return &mIter{items: p.c.pages[p.idx].items}, nil
}
func (p *mPage) GetItemCount() (int64, error) { return int64(len(p.c.pages[p.idx].items)), nil }
func (p *mPage) fetch() (*mPage, error) {
	if p.idx+1 >= len(p.c.pages) {
		return nil, errors.New("no such page")
	}
	if p.c.budget >= 0 && p.c.fetches >= p.c.budget {
		return nil, errors.New("injected fetch failure")
	}
	p.c.fetches++
	return &mPage{p.c, p.idx + 1}, nil
}
func (p *mPage) GetNext(ctx context.Context) (pagination.IPage, error) {
	n, err := p.fetch()
	if err != nil {
		return nil, err
	}
	return n, nil
}
func (p *mPage) HasFuture() bool { return p.c.pages[p.idx].hasNext && p.c.pages[p.idx].viaFuture }
func (p *mPage) GetFuture(ctx context.Context) (pagination.IStream, error) {
	if !p.HasFuture() {
		return nil, errors.New("no future")
	}
	n, err := p.fetch()
	if err != nil {
		return nil, err
	}
	return n, nil
}

type pager interface {
	HasNext() bool
	GetNext() (interface{}, error)
	Stop() context.CancelFunc
	Close() error
}

var pagerKinds = []string{"dynamic", "static", "stream-dynamic", "stream-static"}

func newPager(kind string, c *pgColl, firstFail bool) (pager, error) {
	ctx := context.Background()
	first := &mPage{c, 0}
	ff := errors.New("first page fetch failed")
	staticNext := func(_ context.Context, cur pagination.IStaticPage) (pagination.IStaticPage, error) {
		n, err := cur.(*mPage).fetch()
		if err != nil {
			return nil, err
		}
		return n, nil
	}
	switch kind {
	case "dynamic":
		p, err := pagination.NewCollectionPaginator(ctx, func(context.Context) (pagination.IPage, error) {
			if firstFail {
				return nil, ff
			}
			return first, nil
		})
		if p == nil {
			return nil, err
		}
		return p, err
	case "static":
		p, err := pagination.NewStaticPagePaginator(ctx, func(context.Context) (pagination.IStaticPage, error) {
			if firstFail {
				return nil, ff
			}
			return first, nil
		}, staticNext)
		if p == nil {
			return nil, err
		}
		return p, err
	case "stream-dynamic":
		p, err := pagination.NewStreamPaginator(ctx, time.Millisecond, time.Millisecond, func(context.Context) (pagination.IStream, error) {
			if firstFail {
				return nil, ff
			}
			return first, nil
		})
		if p == nil {
			return nil, err
		}
		return p, err
	case "stream-static":
		p, err := pagination.NewStaticPageStreamPaginator(ctx, time.Millisecond, time.Millisecond, func(context.Context) (pagination.IStaticPageStream, error) {
			if firstFail {
				return nil, ff
			}
			return first, nil
		}, staticNext, func(_ context.Context, cur pagination.IStaticPageStream) (pagination.IStaticPageStream, error) {
			mp := cur.(*mPage)
			if !mp.HasFuture() {
				return nil, errors.New("no future")
			}
			n, err := mp.fetch()
			if err != nil {
				return nil, err
			}
			return n, nil
		})
		if p == nil {
			return nil, err
		}
		return p, err
	}
	panic(kind)
}

func (c *pgColl) encode() string {
	var ps []string
	for _, p := range c.pages {
		var its []string
		for _, i := range p.items {
			its = append(its, strconv.Itoa(i))
		}
		f := "0"
		if p.hasNext {
			f = "1"
		}
		ps = append(ps, f+":"+strings.Join(its, ","))
	}
	b := "-"
	if c.budget >= 0 {
		b = strconv.Itoa(c.budget)
	}
	return b + " " + strings.Join(ps, ";")
}

func runPagerOps(p pager, ops string) (outs []string, items []int) {
	for i, op := range ops {
		switch op {
		case 'h':
			if p.HasNext() {
				outs = append(outs, "t")
			} else {
				outs = append(outs, "f")
			}
		case 'g':
			it, err := p.GetNext()
			if err != nil {
				outs = append(outs, "e")
			} else {
				outs = append(outs, fmt.Sprint(it))
				items = append(items, it.(int))
			}
		case 's':
			if i%2 == 0 {
				p.Stop()()
			} else {
				_ = p.Close()
			}
			outs = append(outs, "k")
		}
	}
	return
}

func pageMain(args []string) {
	o := hx.ParseOpts(args)
	rep := hx.NewReport("collections of 1..8 pages (thorough: ..20) of 0..5 items (..10), HasNext flag honest in 80% of the collections and arbitrary otherwise, " +
		"fetch failure after k fetches in 25%; op sequences of 0..24 calls over HasNext/GetNext/Stop (Stop rare), plus a canonical drain; " +
		"each case on the 4 AbstractPaginator-based constructors; plus real-time scenarios on the two stream paginators with future pages (batches arriving at scheduled instants, DryUp at a scheduled instant or never, grace period 400 ms, slack 150 ms). non-trivial = at least 2 pages and at least one GetNext; distinct = (collection, ops, kind).")
	drv, err := hx.StartDriver(o.Driver)
	if err != nil {
		fmt.Println("driver:", err)
	}
	defer drv.Close()
	rnd := hx.NewRand(o.Seed)
	n := 1500
	maxPages, maxItems := 8, 5
	if o.Thorough() {
		n, maxPages, maxItems = 60000, 20, 10
	}
	type caseT struct {
		c    pgColl
		ops  string
		kind string
		outs []string
	}
	var cases []caseT
	var lines []string
	next := 1
	gen := func() (pgColl, string, bool) {
		np := rnd.Range(1, maxPages)
		if rnd.Chance(10) {
			np = 1
		}
		c := pgColl{budget: -1}
		honest := rnd.Chance(80)
		for i := 0; i < np; i++ {
			ni := rnd.Intn(maxItems + 1)
			if rnd.Chance(25) {
				ni = 0
			}
			var its []int
			for j := 0; j < ni; j++ {
				its = append(its, next)
				next++
			}
			hn := i+1 < np
			if !honest && rnd.Chance(30) {
				hn = !hn
			}
			c.pages = append(c.pages, pgSpec{items: its, hasNext: hn})
		}
		if rnd.Chance(25) {
			c.budget = rnd.Intn(np + 1)
		}
		var ops strings.Builder
		isDrain := false
		switch rnd.Intn(4) {
		case 0: // canonical drain
			isDrain = true
			total := 0
			for _, p := range c.pages {
				total += len(p.items)
			}
			for i := 0; i <= total+1; i++ {
				ops.WriteString("hg")
			}
		case 1: // GetNext only
			for i := rnd.Intn(30); i >= 0; i-- {
				ops.WriteByte('g')
			}
		default:
			for i := rnd.Intn(25); i > 0; i-- {
				switch x := rnd.Intn(100); {
				case x < 45:
					ops.WriteByte('h')
				case x < 96:
					ops.WriteByte('g')
				default:
					ops.WriteByte('s')
				}
			}
		}
		return c, ops.String(), isDrain
	}
	for i := 0; i < n; i++ {
		c, ops, isDrain := gen()
		for _, kind := range pagerKinds {
			cc := c
			cc.fetches = 0
			if strings.HasPrefix(kind, "stream") && i%3 == 0 {
				// some of the links of the chain are future links (every other one, or all of them)
				cc.pages = append([]pgSpec{}, c.pages...)
				for j := range cc.pages {
					cc.pages[j].viaFuture = i%2 == 0 || j%2 == 0
				}
				rep.Hist("stream-with-future-links")
			}
			p, err := newPager(kind, &cc, false)
			if err != nil || p == nil {
				rep.Fail(hx.Failure{Kind: "harness-error", Key: "ctor", Case: kind + " " + c.encode(), Detail: fmt.Sprint(err)})
				continue
			}
			// the page the paginator starts on is the first page of the collection
			var startCount int64 = -1
			switch gp := p.(type) {
			case interface {
				GetCurrentPage() (pagination.IPage, error)
			}:
				if pg, gerr := gp.GetCurrentPage(); gerr == nil && pg != nil {
					startCount, _ = pg.GetItemCount()
				}
			case interface {
				GetCurrentPage() (pagination.IStaticPage, error)
			}:
				if pg, gerr := gp.GetCurrentPage(); gerr == nil && pg != nil {
					startCount, _ = pg.GetItemCount()
				}
			}
			if startCount != int64(len(c.pages[0].items)) {
				rep.Fail(hx.Failure{Kind: "impl-violates-property", Key: "current-page-is-not-the-first-page", Case: kind + " " + c.encode(),
					Expected: fmt.Sprint(len(c.pages[0].items), " items"), Observed: fmt.Sprint(startCount)})
			}
			outs, items := runPagerOps(p, ops)
			line := "page " + c.encode() + " " + ops
			nontriv := len(c.pages) >= 2 && strings.Contains(ops, "g")
			rep.Eval(kind+" "+line, nontriv)
			rep.Hist("kind:" + kind)
			if c.budget >= 0 {
				rep.Hist("with-fetch-failure")
			}
			if strings.Contains(ops, "s") {
				rep.Hist("with-stop")
			}
			// ---- monitors (model-free) --------------------------------------------------
			isHonest := true
			var all []int
			for j, pg := range c.pages {
				if pg.hasNext != (j+1 < len(c.pages)) {
					isHonest = false
				}
				if c.budget < 0 || j <= c.budget {
					all = append(all, pg.items...)
				}
			}
			if isHonest {
				rep.Hist("honest")
				okPrefix := len(items) <= len(all)
				for j := 0; okPrefix && j < len(items); j++ {
					okPrefix = items[j] == all[j]
				}
				if !okPrefix {
					rep.Fail(hx.Failure{Kind: "impl-violates-property", Key: "yield-not-prefix:" + kind, Case: line,
						Expected: fmt.Sprint("prefix of ", all), Observed: fmt.Sprint(items)})
				}
				// honest collection: GetNext must succeed exactly while items remain, HasNext must say so
				consumed, stopped := 0, false
				for j, op := range ops {
					switch op {
					case 's':
						stopped = true
					case 'g':
						wantOK := !stopped && consumed < len(all)
						gotOK := outs[j] != "e"
						if wantOK != gotOK {
							rep.Fail(hx.Failure{Kind: "impl-violates-property", Key: "getnext-availability:" + kind, Case: line,
								Expected: fmt.Sprintf("call #%d (GetNext) ok=%v, %d of %d items consumed", j, wantOK, consumed, len(all)), Observed: strings.Join(outs, ",")})
						}
						if gotOK {
							consumed++
						}
					case 'h':
						want := "f"
						if !stopped && consumed < len(all) {
							want = "t"
						}
						if outs[j] != want {
							rep.Fail(hx.Failure{Kind: "impl-violates-property", Key: "hasnext-wrong:" + kind, Case: line,
								Expected: fmt.Sprintf("call #%d (HasNext) = %s", j, want), Observed: strings.Join(outs, ",")})
						}
					}
				}
				if isDrain && len(items) != len(all) {
					rep.Fail(hx.Failure{Kind: "impl-violates-property", Key: "drain-incomplete:" + kind, Case: line,
						Expected: fmt.Sprint(all), Observed: fmt.Sprint(items)})
				}
			}
			if k := strings.Index(ops, "s"); k >= 0 {
				for j := k + 1; j < len(outs); j++ {
					if outs[j] != "e" && outs[j] != "f" && outs[j] != "k" {
						rep.Fail(hx.Failure{Kind: "impl-violates-property", Key: "yield-after-stop:" + kind, Case: line, Observed: strings.Join(outs, ",")})
						break
					}
				}
			}
			for j := 1; j < len(ops); j++ {
				if ops[j] == 'h' && ops[j-1] == 'h' && outs[j] != outs[j-1] {
					rep.Fail(hx.Failure{Kind: "impl-violates-property", Key: "hasnext-not-idempotent:" + kind, Case: line, Observed: strings.Join(outs, ",")})
				}
			}
			cases = append(cases, caseT{c, ops, kind, outs})
			lines = append(lines, line)
		}
	}
	// ---- constructor failures must be reported ---------------------------------------------
	for _, kind := range pagerKinds {
		for _, mode := range []string{"first-page-fetch-fails", "first-page-iterator-fails"} {
			c := pgColl{pages: []pgSpec{{items: []int{1}}}, budget: -1, iterFail: mode == "first-page-iterator-fails"}
			_, err := newPager(kind, &c, mode == "first-page-fetch-fails")
			rep.Eval("ctor "+kind+" "+mode, true)
			rep.Hist("ctor-failure-cases")
			if err == nil {
				rep.Fail(hx.Failure{Kind: "impl-violates-property", Key: "ctor-error-swallowed:" + kind + ":" + mode, Case: "ctor " + kind + " " + mode,
					Expected: "a non-nil error", Observed: "nil error", Detail: "constructor failure is not reported to the caller"})
			}
		}
	}
	// ---- correspondence ------------------------------------------------------------------------
	if drv != nil {
		ans, err := drv.Ask(lines)
		if err != nil {
			rep.Fail(hx.Failure{Kind: "harness-error", Key: "driver", Detail: err.Error()})
		}
		for i, a := range ans {
			got := strings.Join(cases[i].outs, ",")
			if a != got {
				rep.Fail(hx.Failure{Kind: "model-impl-divergence", Key: "page-outputs:" + cases[i].kind, Case: lines[i] + " [" + cases[i].kind + "]", Expected: "model: " + a, Observed: "impl: " + got})
			} else {
				rep.Hist("model=impl")
			}
		}
		for _, i := range []int{0, len(lines) / 2, len(lines) - 1} {
			if i < len(ans) {
				rep.Sample(map[string]string{"line": lines[i], "kind": cases[i].kind, "outputs": ans[i]})
			}
		}
	}
	streamFutureScenarios(rep, o)
	rep.Write(o.Report, drv)
}
