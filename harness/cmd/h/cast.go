package main

// C10 — safecast: real code vs (a) an independent math/big oracle `clamp∘trunc` (property monitor),
// (b) the Lean model evaluated on the facts regenerated from the current source (correspondence).

import (
	"fmt"
	"math"
	"math/big"
	"runtime"
	"sort"
	"strconv"
	"strings"
	"sync"

	"github.com/ARM-software/golang-utils/utils/safecast"

	"verif/harness/hx"
)

func init() { subs["cast"] = castMain }

type (
	NF32 float32
	NF64 float64
	NI8  int8
	NI64 int64
	NU16 uint16
	NU64 uint64
	NInt int
)

var castFns = []string{"ToInt", "ToUint", "ToInt8", "ToUint8", "ToInt16", "ToUint16", "ToInt32", "ToUint32", "ToInt64", "ToUint64"}

type tgtRange struct{ lo, hi *big.Int }

func bi(s string) *big.Int { b, _ := new(big.Int).SetString(s, 10); return b }

var castTgt = []tgtRange{
	{bi("-9223372036854775808"), bi("9223372036854775807")}, {bi("0"), bi("18446744073709551615")},
	{bi("-128"), bi("127")}, {bi("0"), bi("255")},
	{bi("-32768"), bi("32767")}, {bi("0"), bi("65535")},
	{bi("-2147483648"), bi("2147483647")}, {bi("0"), bi("4294967295")},
	{bi("-9223372036854775808"), bi("9223372036854775807")}, {bi("0"), bi("18446744073709551615")},
}

// all10 runs the ten conversions on one source value; a panic is reported as "panic:…".
func all10[S safecast.IConvertable](v S) (out [10]string) {
	call := func(i int, f func() string) {
		defer func() {
			if r := recover(); r != nil {
				out[i] = fmt.Sprint("panic:", r)
			}
		}()
		out[i] = f()
	}
	call(0, func() string { return strconv.FormatInt(int64(safecast.ToInt(v)), 10) })
	call(1, func() string { return strconv.FormatUint(uint64(safecast.ToUint(v)), 10) })
	call(2, func() string { return strconv.FormatInt(int64(safecast.ToInt8(v)), 10) })
	call(3, func() string { return strconv.FormatUint(uint64(safecast.ToUint8(v)), 10) })
	call(4, func() string { return strconv.FormatInt(int64(safecast.ToInt16(v)), 10) })
	call(5, func() string { return strconv.FormatUint(uint64(safecast.ToUint16(v)), 10) })
	call(6, func() string { return strconv.FormatInt(int64(safecast.ToInt32(v)), 10) })
	call(7, func() string { return strconv.FormatUint(uint64(safecast.ToUint32(v)), 10) })
	call(8, func() string { return strconv.FormatInt(safecast.ToInt64(v), 10) })
	call(9, func() string { return strconv.FormatUint(safecast.ToUint64(v), 10) })
	return
}

// a source value in a kind-independent form
type castVal struct {
	kind  string // int8 … uint | f32 | f64 | nf32 | nf64 | n:<int kind> (named integer type)
	isInt bool
	i     *big.Int // integer sources
	f     float64  // float sources (float32 values are exactly representable)
}

func (c castVal) modelKind() string { return strings.TrimPrefix(c.kind, "n:") }

func (c castVal) text() string {
	if c.isInt {
		return c.i.String()
	}
	switch {
	case math.IsNaN(c.f):
		return "NaN"
	case math.IsInf(c.f, 1):
		return "+Inf"
	case math.IsInf(c.f, -1):
		return "-Inf"
	}
	fr, e := math.Frexp(c.f) // f = fr * 2^e, |fr| in [0.5,1)
	m := int64(fr * (1 << 53))
	return fmt.Sprintf("F %d %d", m, e-53)
}

// oracle: clamp(trunc(v)); "" when unspecified (NaN)
func (c castVal) oracle(t int) string {
	var z *big.Int
	if c.isInt {
		z = c.i
	} else {
		switch {
		case math.IsNaN(c.f):
			return ""
		case math.IsInf(c.f, 1):
			return castTgt[t].hi.String()
		case math.IsInf(c.f, -1):
			return castTgt[t].lo.String()
		}
		z, _ = new(big.Float).SetFloat64(c.f).Int(nil) // truncation toward zero
	}
	if z.Cmp(castTgt[t].lo) < 0 {
		return castTgt[t].lo.String()
	}
	if z.Cmp(castTgt[t].hi) > 0 {
		return castTgt[t].hi.String()
	}
	return z.String()
}

func (c castVal) run() [10]string {
	if c.isInt {
		switch c.kind {
		case "int8":
			return all10(int8(c.i.Int64()))
		case "int16":
			return all10(int16(c.i.Int64()))
		case "int32":
			return all10(int32(c.i.Int64()))
		case "int64":
			return all10(c.i.Int64())
		case "int":
			return all10(int(c.i.Int64()))
		case "uint8":
			return all10(uint8(c.i.Uint64()))
		case "uint16":
			return all10(uint16(c.i.Uint64()))
		case "uint32":
			return all10(uint32(c.i.Uint64()))
		case "uint64":
			return all10(c.i.Uint64())
		case "uint":
			return all10(uint(c.i.Uint64()))
		case "n:int8":
			return all10(NI8(c.i.Int64()))
		case "n:int64":
			return all10(NI64(c.i.Int64()))
		case "n:int":
			return all10(NInt(c.i.Int64()))
		case "n:uint16":
			return all10(NU16(c.i.Uint64()))
		case "n:uint64":
			return all10(NU64(c.i.Uint64()))
		}
		panic("kind " + c.kind)
	}
	switch c.kind {
	case "f32":
		return all10(float32(c.f))
	case "f64":
		return all10(c.f)
	case "nf32":
		return all10(NF32(c.f))
	case "nf64":
		return all10(NF64(c.f))
	}
	panic("kind " + c.kind)
}

var intKinds = map[string]tgtRange{
	"int8": {bi("-128"), bi("127")}, "int16": {bi("-32768"), bi("32767")}, "int32": {bi("-2147483648"), bi("2147483647")},
	"int64": {bi("-9223372036854775808"), bi("9223372036854775807")}, "int": {bi("-9223372036854775808"), bi("9223372036854775807")},
	"uint8": {bi("0"), bi("255")}, "uint16": {bi("0"), bi("65535")}, "uint32": {bi("0"), bi("4294967295")},
	"uint64": {bi("0"), bi("18446744073709551615")}, "uint": {bi("0"), bi("18446744073709551615")},
}

var castBoundaries = []string{"0", "127", "128", "255", "256", "32767", "32768", "65535", "65536", "2147483647", "2147483648",
	"4294967295", "4294967296", "9223372036854775807", "9223372036854775808", "18446744073709551615", "18446744073709551616",
	"-128", "-129", "-32768", "-32769", "-2147483648", "-2147483649", "-9223372036854775808", "-9223372036854775809"}

// classifier of a failing case (stable signature used by known_findings.jsonl)
func castKey(c castVal) string {
	if c.kind == "nf32" || c.kind == "nf64" {
		if math.IsInf(c.f, 0) || c.f >= 18446744073709551616.0 || c.f < -9223372036854775808.0 {
			return "named-float-source:outside-64bit-conversion-range"
		}
		return "named-float-source:in-range"
	}
	if math.IsNaN(c.f) && !c.isInt {
		return "nan"
	}
	return "builtin-source"
}

func castMain(args []string) {
	o := hx.ParseOpts(args)
	rep := hx.NewReport("sources: every 8/16-bit value; for wider integer kinds every value within ±R of each target-range boundary " +
		"(R=4096), powers of two ±1, random; floats: integers ±k and ±fractions around every boundary, 64 next-up/next-down neighbours of " +
		"each boundary, powers of two, ±Inf, NaN (panic check only), subnormals, random bit patterns; named types over ints and floats. " +
		"Each (kind,value) is run through all 10 ToX. non-trivial = result is a clamp to a boundary or a truncation of a fraction " +
		"(i.e. differs from the identity on integers); distinct = distinct (kind,value,function).")
	drv, err := hx.StartDriver(o.Driver)
	if err != nil {
		fmt.Println("driver:", err)
	}
	defer drv.Close()
	rnd := hx.NewRand(o.Seed)

	var vals []castVal
	addInt := func(kind string, z *big.Int) {
		r := intKinds[strings.TrimPrefix(kind, "n:")]
		if z.Cmp(r.lo) < 0 || z.Cmp(r.hi) > 0 {
			return
		}
		vals = append(vals, castVal{kind: kind, isInt: true, i: new(big.Int).Set(z)})
	}
	R := int64(4096)
	allIntKinds := []string{"int8", "int16", "int32", "int64", "int", "uint8", "uint16", "uint32", "uint64", "uint",
		"n:int8", "n:int64", "n:int", "n:uint16", "n:uint64"}
	for _, k := range allIntKinds {
		base := strings.TrimPrefix(k, "n:")
		r := intKinds[base]
		if base == "int8" || base == "uint8" || base == "int16" || base == "uint16" {
			for z := new(big.Int).Set(r.lo); z.Cmp(r.hi) <= 0; z = new(big.Int).Add(z, big.NewInt(1)) {
				addInt(k, z)
			}
			continue
		}
		rr := R
		if strings.HasPrefix(k, "n:") {
			rr = 64
		}
		for _, b := range castBoundaries {
			for d := -rr; d <= rr; d++ {
				addInt(k, new(big.Int).Add(bi(b), big.NewInt(d)))
			}
		}
		for p := 0; p <= 64; p++ {
			for _, d := range []int64{-1, 0, 1} {
				pw := new(big.Int).Lsh(big.NewInt(1), uint(p))
				addInt(k, new(big.Int).Add(pw, big.NewInt(d)))
				addInt(k, new(big.Int).Add(new(big.Int).Neg(pw), big.NewInt(d)))
			}
		}
		nr := 2000
		if o.Thorough() {
			nr = 200000
		}
		for i := 0; i < nr; i++ {
			u := rnd.U64() >> uint(rnd.Intn(64))
			z := new(big.Int).SetUint64(u)
			if rnd.Bool() {
				z.Neg(z)
			}
			addInt(k, z)
		}
	}
	addF := func(kind string, f float64) {
		if kind == "f32" || kind == "nf32" {
			f = float64(float32(f))
		}
		vals = append(vals, castVal{kind: kind, f: f})
	}
	for _, k := range []string{"f32", "f64", "nf32", "nf64"} {
		is32 := k == "f32" || k == "nf32"
		for _, b := range castBoundaries {
			bf, _ := new(big.Float).SetInt(bi(b)).Float64()
			for d := -40; d <= 40; d++ {
				for _, fr := range []float64{0, 0.25, 0.5, 0.999} {
					addF(k, bf+float64(d)+fr)
					addF(k, bf+float64(d)-fr)
				}
			}
			up, dn := bf, bf
			if is32 {
				u32, d32 := float32(bf), float32(bf)
				for i := 0; i < 64; i++ {
					u32 = math.Nextafter32(u32, float32(math.Inf(1)))
					d32 = math.Nextafter32(d32, float32(math.Inf(-1)))
					addF(k, float64(u32))
					addF(k, float64(d32))
				}
			} else {
				for i := 0; i < 64; i++ {
					up = math.Nextafter(up, math.Inf(1))
					dn = math.Nextafter(dn, math.Inf(-1))
					addF(k, up)
					addF(k, dn)
				}
			}
		}
		for p := -1074; p <= 1023; p += 1 {
			if p < -10 && p%37 != 0 {
				continue
			}
			addF(k, math.Ldexp(1, p))
			addF(k, -math.Ldexp(1, p))
			addF(k, math.Ldexp(1, p)+1)
			addF(k, math.Ldexp(1, p)-1)
		}
		for _, f := range []float64{0, math.Copysign(0, -1), math.Inf(1), math.Inf(-1), math.NaN(), math.MaxFloat64, -math.MaxFloat64,
			math.SmallestNonzeroFloat64, math.MaxFloat32, -math.MaxFloat32, 1e19, -1e19, 1.8446744073709552e19, 9.223372036854776e18} {
			addF(k, f)
		}
		nr := 20000
		if o.Thorough() {
			nr = 1000000
		}
		for i := 0; i < nr; i++ {
			var f float64
			switch rnd.Intn(3) {
			case 0:
				f = math.Float64frombits(rnd.U64())
			case 1:
				f = float64(math.Float32frombits(uint32(rnd.U64())))
			default:
				f = (float64(int64(rnd.U64())) / float64(uint64(1)<<uint(rnd.Intn(40)))) // mixed magnitudes with fractions
			}
			addF(k, f)
		}
	}

	// ---- run: implementation vs oracle (monitor) ------------------------------------------------
	type rowT struct {
		c   castVal
		out [10]string
	}
	rows := make([]rowT, len(vals))
	var wg sync.WaitGroup
	nw := runtime.NumCPU()
	for w := 0; w < nw; w++ {
		wg.Add(1)
		go func(w int) {
			defer wg.Done()
			for i := w; i < len(vals); i += nw {
				rows[i] = rowT{vals[i], vals[i].run()}
			}
		}(w)
	}
	wg.Wait()
	for _, r := range rows {
		for t := 0; t < 10; t++ {
			exp := r.c.oracle(t)
			canon := r.c.kind + " " + r.c.text() + " " + castFns[t]
			nontriv := exp != "" && (!r.c.isInt || exp != r.c.i.String()) && (r.c.isInt || exp != strconv.FormatFloat(r.c.f, 'f', -1, 64))
			rep.Eval(canon, nontriv)
			if strings.HasPrefix(r.out[t], "panic:") {
				rep.Fail(hx.Failure{Kind: "impl-violates-property", Key: "panic:" + castKey(r.c), Case: "cast " + castFns[t] + " " + r.c.kind + " " + r.c.text(), Observed: r.out[t], Detail: "conversion panicked"})
				continue
			}
			if exp == "" {
				rep.Hist("nan(panic-check-only)")
				continue
			}
			switch {
			case exp == castTgt[t].lo.String() && nontriv:
				rep.Hist("clamped-low")
			case exp == castTgt[t].hi.String() && nontriv:
				rep.Hist("clamped-high")
			case nontriv:
				rep.Hist("fraction-dropped")
			default:
				rep.Hist("in-range-identity")
			}
			if r.out[t] != exp {
				rep.Fail(hx.Failure{Kind: "impl-violates-property", Key: castKey(r.c), Case: "cast " + castFns[t] + " " + r.c.kind + " " + r.c.text(),
					Expected: exp, Observed: r.out[t], Detail: "result differs from clamp(trunc(value)); value=" + fmtVal(r.c)})
			}
		}
	}
	// monotonicity monitor: per kind, sort by value, outputs must be non-decreasing
	byKind := map[string][]rowT{}
	for _, r := range rows {
		if !r.c.isInt && math.IsNaN(r.c.f) {
			continue
		}
		byKind[r.c.kind] = append(byKind[r.c.kind], r)
	}
	for k, rs := range byKind {
		sort.SliceStable(rs, func(i, j int) bool {
			if rs[i].c.isInt {
				return rs[i].c.i.Cmp(rs[j].c.i) < 0
			}
			return rs[i].c.f < rs[j].c.f
		})
		for t := 0; t < 10; t++ {
			var prev *big.Int
			var prevRow rowT
			for _, r := range rs {
				cur, ok := new(big.Int).SetString(r.out[t], 10)
				if !ok {
					continue
				}
				if prev != nil && cur.Cmp(prev) < 0 {
					rep.Fail(hx.Failure{Kind: "impl-violates-property", Key: castKey(r.c), Case: "cast " + castFns[t] + " " + k + " " + prevRow.c.text() + " then " + r.c.text(),
						Expected: ">= " + prev.String(), Observed: cur.String(), Detail: "a larger input produced a smaller output"})
				}
				prev, prevRow = cur, r
			}
			rep.HistN("monotone-pairs-checked", len(rs))
		}
	}

	// ---- correspondence with the Lean model (sampled) -----------------------------------------
	if drv != nil {
		budget := 150000
		if o.Thorough() {
			budget = 3000000
		}
		step := 1
		if len(rows)*10 > budget {
			step = len(rows)*10/budget + 1
		}
		var lines []string
		var idx [][2]int
		for i := rnd.Intn(step); i < len(rows); i += step {
			for t := 0; t < 10; t++ {
				lines = append(lines, "cast "+castFns[t]+" "+rows[i].c.modelKind()+" "+rows[i].c.text())
				idx = append(idx, [2]int{i, t})
			}
		}
		ans, err := drv.Ask(lines)
		if err != nil {
			rep.Fail(hx.Failure{Kind: "harness-error", Key: "driver", Detail: err.Error()})
		}
		for j, a := range ans {
			r, t := rows[idx[j][0]], idx[j][1]
			switch {
			case a == "undef":
				rep.Hist("model:implementation-defined")
			case a == "bad-op":
				rep.Fail(hx.Failure{Kind: "model-impl-divergence", Key: "driver-rejects", Case: lines[j], Observed: a})
			case a != r.out[t]:
				rep.Fail(hx.Failure{Kind: "model-impl-divergence", Key: "cast-result", Case: lines[j], Expected: "model: " + a, Observed: "impl: " + r.out[t]})
			default:
				rep.Hist("model=impl")
			}
		}
		if len(lines) > 0 {
			rep.Sample(map[string]string{"line": lines[0], "model": ans[0]})
			rep.Sample(map[string]string{"line": lines[len(lines)/2], "model": ans[len(lines)/2]})
			rep.Sample(map[string]string{"line": lines[len(lines)-1], "model": ans[len(lines)-1]})
		}
	}
	if o.Thorough() {
		castExhaustive32(rep)
	}
	rep.Write(o.Report, drv)
}

func fmtVal(c castVal) string {
	if c.isInt {
		return c.i.String()
	}
	return strconv.FormatFloat(c.f, 'g', -1, 64)
}

// castExhaustive32: every int32, uint32 and float32 value against a fast oracle (16 cores).
func castExhaustive32(rep *hx.Report) {
	clampI := func(v int64, t int) string {
		lo, hi := castTgt[t].lo, castTgt[t].hi
		z := big.NewInt(v)
		if z.Cmp(lo) < 0 {
			return lo.String()
		}
		if z.Cmp(hi) > 0 {
			return hi.String()
		}
		return z.String()
	}
	_ = clampI
	nw := runtime.NumCPU()
	var wg sync.WaitGroup
	var mu sync.Mutex
	bad := 0
	total := uint64(0)
	// fast oracle in int64 / float64 arithmetic
	lo64 := [10]int64{math.MinInt64, 0, -128, 0, -32768, 0, math.MinInt32, 0, math.MinInt64, 0}
	hi64 := [10]uint64{math.MaxInt64, math.MaxUint64, 127, 255, 32767, 65535, math.MaxInt32, math.MaxUint32, math.MaxInt64, math.MaxUint64}
	oracleI := func(v int64, t int) (neg bool, mag uint64) { // returns value as sign+magnitude
		if v < lo64[t] {
			v = lo64[t]
		}
		if v >= 0 && uint64(v) > hi64[t] {
			return false, hi64[t]
		}
		if v < 0 {
			return true, uint64(-v)
		}
		return false, uint64(v)
	}
	fmtSM := func(neg bool, mag uint64) string {
		if neg {
			if mag == 1<<63 {
				return "-9223372036854775808"
			}
			return "-" + strconv.FormatUint(mag, 10)
		}
		return strconv.FormatUint(mag, 10)
	}
	for w := 0; w < nw; w++ {
		wg.Add(1)
		go func(w int) {
			defer wg.Done()
			localBad := 0
			var n uint64
			for u := uint64(w); u < 1<<32; u += uint64(nw) {
				// int32
				vi := int32(uint32(u))
				oi := all10fast(vi)
				// uint32
				vu := uint32(u)
				ou := all10fast(vu)
				// float32
				vf := math.Float32frombits(uint32(u))
				isnan := vf != vf
				var of [10]smT
				if !isnan {
					of = all10fast(vf)
				}
				for t := 0; t < 10; t++ {
					neg, mag := oracleI(int64(vi), t)
					if oi[t] != (smT{neg, mag}) {
						localBad++
						if localBad < 3 {
							rep.Fail(hx.Failure{Kind: "impl-violates-property", Key: "builtin-source", Case: fmt.Sprintf("cast %s int32 %d", castFns[t], vi), Expected: fmtSM(neg, mag), Observed: fmtSM(oi[t].neg, oi[t].mag)})
						}
					}
					neg, mag = oracleI(int64(vu), t)
					if ou[t] != (smT{neg, mag}) {
						localBad++
						if localBad < 3 {
							rep.Fail(hx.Failure{Kind: "impl-violates-property", Key: "builtin-source", Case: fmt.Sprintf("cast %s uint32 %d", castFns[t], vu), Expected: fmtSM(neg, mag), Observed: fmtSM(ou[t].neg, ou[t].mag)})
						}
					}
					if !isnan {
						// trunc, then clamp, in float64 (exact for float32 inputs; bounds compared as 2^63 / 2^64)
						tr := math.Trunc(float64(vf))
						var e smT
						switch {
						case tr < float64(lo64[t]):
							e = smT{lo64[t] < 0, uint64(-lo64[t])}
							if lo64[t] == math.MinInt64 {
								e = smT{true, 1 << 63}
							}
						case (hi64[t] == math.MaxUint64 && tr >= 18446744073709551616.0) || (hi64[t] == math.MaxInt64 && tr >= 9223372036854775808.0) ||
							(hi64[t] < math.MaxInt64 && tr > float64(hi64[t])):
							e = smT{false, hi64[t]}
						case tr < 0:
							e = smT{true, uint64(-tr)}
						default:
							e = smT{false, uint64(tr)}
						}
						if e.mag == 0 {
							e.neg = false
						}
						if of[t] != e {
							localBad++
							if localBad < 3 {
								rep.Fail(hx.Failure{Kind: "impl-violates-property", Key: "builtin-source", Case: fmt.Sprintf("cast %s f32 bits=%#x (%g)", castFns[t], uint32(u), vf), Expected: fmtSM(e.neg, e.mag), Observed: fmtSM(of[t].neg, of[t].mag)})
							}
						}
					}
				}
				n += 30
			}
			mu.Lock()
			bad += localBad
			total += n
			mu.Unlock()
		}(w)
	}
	wg.Wait()
	rep.HistN("exhaustive-32bit-evaluations", int(total))
	rep.HistN("exhaustive-32bit-mismatches", bad)
	rep.Evaluations += int(total)
}

type smT struct {
	neg bool
	mag uint64
}

func sm(v int64) smT {
	if v < 0 {
		return smT{true, uint64(-v)}
	}
	return smT{false, uint64(v)}
}

func all10fast[S safecast.IConvertable](v S) [10]smT {
	return [10]smT{sm(int64(safecast.ToInt(v))), {false, uint64(safecast.ToUint(v))}, sm(int64(safecast.ToInt8(v))), {false, uint64(safecast.ToUint8(v))},
		sm(int64(safecast.ToInt16(v))), {false, uint64(safecast.ToUint16(v))}, sm(int64(safecast.ToInt32(v))), {false, uint64(safecast.ToUint32(v))},
		sm(safecast.ToInt64(v)), {false, safecast.ToUint64(v)}}
}
