package main

// C14, the HTTP client itself — the retryable client built from a policy configuration, against a local server
// that answers a scripted sequence of statuses: the number of attempts (at least one, at most RetryMax + 1,
// none after a success or an answer that is not retriable), the result handed to the caller, and the waits
// between attempts (constant / linear / exponential bounds, Retry-After honoured exactly when enabled).

import (
	"fmt"
	"net/http"
	"net/http/httptest"
	"sync"
	"time"

	httpx "github.com/ARM-software/golang-utils/utils/http"

	"verif/harness/hx"
)

type clientScript struct {
	statuses   []int // answered in turn; the last one repeats
	retryAfter string
}

func retryClientScenarios(rep *hx.Report, o *hx.Opts) {
	rnd := hx.NewRand(o.Seed + 14)
	n := 24
	if o.Thorough() {
		n = 300
	}
	for i := 0; i < n; i++ {
		retryMax := rnd.Intn(5)
		kind := []string{"none", "basic", "robust", "linear", "exponential"}[i%5]
		cfg := httpx.DefaultHTTPClientConfiguration()
		minW, maxW := time.Duration(2+rnd.Intn(4))*time.Millisecond, time.Duration(12+rnd.Intn(10))*time.Millisecond
		switch kind {
		case "none":
			cfg.RetryPolicy = *httpx.DefaultNoRetryPolicyConfiguration()
			retryMax = cfg.RetryPolicy.RetryMax
		case "basic":
			cfg.RetryPolicy = *httpx.DefaultBasicRetryPolicyConfiguration()
			cfg.RetryPolicy.RetryMax, cfg.RetryPolicy.RetryWaitMin, cfg.RetryPolicy.RetryWaitMax = retryMax, minW, maxW
		case "robust":
			cfg.RetryPolicy = *httpx.DefaultRobustRetryPolicyConfiguration()
			cfg.RetryPolicy.RetryMax, cfg.RetryPolicy.RetryWaitMin, cfg.RetryPolicy.RetryWaitMax = retryMax, minW, maxW
		case "linear":
			cfg.RetryPolicy = *httpx.DefaultLinearBackoffRetryPolicyConfiguration()
			cfg.RetryPolicy.RetryMax, cfg.RetryPolicy.RetryWaitMin, cfg.RetryPolicy.RetryWaitMax = retryMax, minW, maxW
		case "exponential":
			cfg.RetryPolicy = *httpx.DefaultExponentialBackoffRetryPolicyConfiguration()
			cfg.RetryPolicy.RetryMax, cfg.RetryPolicy.RetryWaitMin, cfg.RetryPolicy.RetryWaitMax = retryMax, minW, maxW
		}
		// the server's script: k retriable answers, then a final status
		k := rnd.Intn(6)
		final := []int{200, 200, 204, 404, 400, 501}[rnd.Intn(6)]
		retriable := []int{503, 500, 429, 502}[rnd.Intn(4)]
		sc := clientScript{}
		for j := 0; j < k; j++ {
			sc.statuses = append(sc.statuses, retriable)
		}
		sc.statuses = append(sc.statuses, final)
		if (retriable == 503 || retriable == 429) && rnd.Chance(40) {
			sc.retryAfter = "0" // a server hint of zero seconds
		}
		var mu sync.Mutex
		var hits []time.Time
		srv := httptest.NewServer(http.HandlerFunc(func(w http.ResponseWriter, r *http.Request) {
			mu.Lock()
			idx := len(hits)
			hits = append(hits, time.Now())
			mu.Unlock()
			st := sc.statuses[len(sc.statuses)-1]
			if idx < len(sc.statuses) {
				st = sc.statuses[idx]
			}
			if sc.retryAfter != "" && (st == 503 || st == 429) {
				w.Header().Set("Retry-After", sc.retryAfter)
			}
			w.WriteHeader(st)
		}))
		client := httpx.NewConfigurableRetryableClient(cfg)
		resp, err := client.Get(srv.URL)
		if resp != nil && resp.Body != nil {
			_ = resp.Body.Close()
		}
		_ = client.Close()
		srv.Close()
		mu.Lock()
		got := append([]time.Time{}, hits...)
		mu.Unlock()
		wantAttempts := k + 1
		exhausted := false
		if k > retryMax {
			wantAttempts, exhausted = retryMax+1, true
		}
		caseTxt := fmt.Sprintf("http-client policy=%s RetryMax=%d min=%v max=%v server=%v Retry-After=%q", kind, retryMax, minW, maxW, sc.statuses, sc.retryAfter)
		rep.Eval(caseTxt, k > 0)
		rep.Hist("http-client:" + kind)
		if len(got) != wantAttempts {
			rep.Fail(hx.Failure{Kind: "impl-violates-property", Key: "http-client-attempts", Case: caseTxt,
				Expected: fmt.Sprintf("%d requests (at least one, at most RetryMax+1, none after an answer that is not retriable)", wantAttempts), Observed: fmt.Sprintf("%d requests, error %v", len(got), err)})
			continue
		}
		if exhausted {
			if err == nil {
				rep.Fail(hx.Failure{Kind: "impl-violates-property", Key: "http-client-result", Case: caseTxt, Expected: "an error once the attempts are used up", Observed: "nil"})
			}
		} else if err != nil || resp == nil || resp.StatusCode != final {
			rep.Fail(hx.Failure{Kind: "impl-violates-property", Key: "http-client-result", Case: caseTxt, Expected: fmt.Sprintf("the final answer %d, no error", final), Observed: fmt.Sprintf("%v %v", resp != nil, err)})
		}
		// waits between attempts: lower bounds only (the scheduler can always add delay)
		for a := 1; a < len(got); a++ {
			wait := got[a].Sub(got[a-1])
			var least time.Duration
			hint := sc.retryAfter != "" && (kind == "robust" || kind == "linear" || kind == "exponential") && !cfg.RetryPolicy.RetryAfterDisabled
			switch {
			case hint:
				least = 0
			case kind == "linear":
				least = time.Duration(a) * minW
			case kind == "exponential":
				least = minW << uint(a-1)
				if least > maxW {
					least = maxW
				}
			default:
				least = minW
				if kind == "none" {
					least = cfg.RetryPolicy.RetryWaitMin
				}
			}
			if wait+time.Millisecond < least {
				rep.Fail(hx.Failure{Kind: "impl-violates-property", Key: "http-client-wait-too-short", Case: caseTxt,
					Expected: fmt.Sprintf("at least %v before attempt %d", least, a+1), Observed: wait.String()})
			}
		}
	}
}
