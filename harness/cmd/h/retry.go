package main

// C14 — retries and back-off.
//  loop:    retry.RetryOnError on scripted operations (ok / retriable / fatal outcome per invocation,
//           context cancelled before invocation k) vs Model.Retry.retryIf, plus monitors.
//  backoff: BackOffPolicyFactory(cfg).Apply(min, max, n, resp) vs Model.Retry.apply, plus monitors
//           (never negative, constant = min, linear bounds, exponential range and monotonicity,
//           Retry-After replaces the wait exactly).

import (
	"context"
	"errors"
	"fmt"
	"math"
	"net/http"
	"strconv"
	"strings"
	"sync"
	"time"

	"github.com/go-logr/logr"

	"github.com/ARM-software/golang-utils/utils/commonerrors"
	httpx "github.com/ARM-software/golang-utils/utils/http"
	"github.com/ARM-software/golang-utils/utils/retry"

	"verif/harness/hx"
)

func init() { subs["retry"] = retryMain }

type loopCase struct {
	enabled  bool
	attempts int
	script   string
	ctxAt    int // -1: never
	res      string
	inv      int
}

func runLoopCase(c *loopCase) {
	ctx, cancel := context.WithCancel(context.Background())
	defer cancel()
	if c.ctxAt == 0 {
		cancel()
	}
	n := 0
	var errs []error
	fn := func() error {
		i := n
		n++
		if c.ctxAt > 0 && n == c.ctxAt {
			cancel() // the context is done when the loop looks at it before invocation ctxAt
		}
		o := byte('r')
		if i < len(c.script) {
			o = c.script[i]
		}
		switch o {
		case 'o':
			errs = append(errs, nil)
			return nil
		case 'f':
			e := commonerrors.Newf(commonerrors.ErrInvalid, "fatal %d", i)
			errs = append(errs, e)
			return e
		default:
			e := commonerrors.Newf(commonerrors.ErrUnavailable, "retriable %d", i)
			errs = append(errs, e)
			return e
		}
	}
	pol := &retry.RetryPolicyConfiguration{Enabled: c.enabled, RetryMax: c.attempts, RetryWaitMin: 3 * time.Millisecond, RetryWaitMax: 3 * time.Millisecond}
	err := retry.RetryOnError(ctx, logr.Discard(), pol, fn, "retrying", commonerrors.ErrUnavailable)
	c.inv = n
	switch {
	case err == nil:
		c.res = "nil"
	case commonerrors.Any(err, commonerrors.ErrCancelled, commonerrors.ErrTimeout):
		c.res = "ctx"
	case errors.Is(err, context.Canceled):
		c.res = "rawctx"
	default:
		c.res = "other:" + err.Error()
		for i, e := range errs {
			if e != nil && err == e {
				c.res = "err" + strconv.Itoa(i)
			}
		}
	}
}

func retryMain(args []string) {
	o := hx.ParseOpts(args)
	rep := hx.NewReport("loop: policy enabled/disabled, attempts 1..8, scripts of ok/retriable/fatal outcomes, context cancelled before invocation k (k=0: before the call); " +
		"backoff: the three policies x Retry-After considered or not x 0<=min<=max (0, ns, ms, s, hours, MaxInt64) x n in {0..40, 52, 53, 62, 63, 64, 100, 1023, 1024, 2^31-1} x " +
		"status {none,200,429,503,500} x header {absent, seconds from -2^63 to 2^63-1 incl. the overflow boundary 9223372036/7, dates past/future, garbage}. " +
		"non-trivial = more than one invocation / a cap, a header hit or n>0; distinct = case text.")
	drv, err := hx.StartDriver(o.Driver)
	if err != nil {
		fmt.Println("driver:", err)
	}
	defer drv.Close()
	rnd := hx.NewRand(o.Seed)

	// ---- loop -------------------------------------------------------------------------------------
	nL := 500
	if o.Thorough() {
		nL = 12000
	}
	cases := make([]*loopCase, nL)
	for i := range cases {
		c := &loopCase{enabled: !rnd.Chance(12), attempts: rnd.Range(1, 8), ctxAt: -1}
		var sb strings.Builder
		for j := rnd.Intn(10); j > 0; j-- {
			switch x := rnd.Intn(100); {
			case x < 25:
				sb.WriteByte('o')
			case x < 40:
				sb.WriteByte('f')
			default:
				sb.WriteByte('r')
			}
		}
		c.script = sb.String()
		if rnd.Chance(30) {
			c.ctxAt = rnd.Intn(c.attempts + 1)
		}
		cases[i] = c
	}
	var wg sync.WaitGroup
	sem := make(chan struct{}, 32)
	for _, c := range cases {
		wg.Add(1)
		sem <- struct{}{}
		go func(c *loopCase) { defer wg.Done(); runLoopCase(c); <-sem }(c)
	}
	wg.Wait()
	var lines, want []string
	for _, c := range cases {
		sc := c.script
		if sc == "" {
			sc = "-"
		}
		ctx := "-"
		if c.ctxAt >= 0 {
			ctx = strconv.Itoa(c.ctxAt)
		}
		en := "0"
		if c.enabled {
			en = "1"
		}
		line := fmt.Sprintf("retryloop %s %d %s %s", en, c.attempts, sc, ctx)
		rep.Eval(line, c.inv > 1)
		rep.Hist("loop:" + strings.SplitN(c.res, ":", 2)[0][:3])
		// monitors
		limit := c.attempts
		if !c.enabled {
			limit = 1
		}
		lo := 1
		if c.ctxAt == 0 && c.enabled {
			lo = 0
		}
		if c.inv > limit || c.inv < lo {
			rep.Fail(hx.Failure{Kind: "impl-violates-property", Key: "attempt-count", Case: line, Expected: fmt.Sprintf("%d..%d invocations", lo, limit), Observed: strconv.Itoa(c.inv)})
		}
		// no invocation after a success, a fatal error, or a done context
		for i := 0; i < c.inv-1; i++ {
			oc := byte('r')
			if i < len(c.script) {
				oc = c.script[i]
			}
			if c.enabled && (oc == 'o' || oc == 'f') {
				rep.Fail(hx.Failure{Kind: "impl-violates-property", Key: "invoked-after-final-outcome", Case: line, Observed: fmt.Sprintf("%d invocations", c.inv)})
			}
		}
		if c.enabled && c.ctxAt >= 0 && c.inv > c.ctxAt {
			rep.Fail(hx.Failure{Kind: "impl-violates-property", Key: "invoked-after-context-done", Case: line, Observed: fmt.Sprintf("%d invocations", c.inv)})
		}
		lastOK := c.inv > 0 && c.inv-1 < len(c.script) && c.script[c.inv-1] == 'o'
		if (c.res == "nil") != lastOK {
			rep.Fail(hx.Failure{Kind: "impl-violates-property", Key: "nil-iff-success", Case: line, Observed: c.res})
		}
		if strings.HasPrefix(c.res, "other") || c.res == "rawctx" || (strings.HasPrefix(c.res, "err") && c.res != "err"+strconv.Itoa(c.inv-1)) {
			rep.Fail(hx.Failure{Kind: "impl-violates-property", Key: "wrong-error-returned", Case: line, Expected: "last error or cancelled/timeout kind", Observed: c.res})
		}
		lines = append(lines, line)
		want = append(want, fmt.Sprintf("%s %d", c.res, c.inv))
	}

	// ---- backoff ------------------------------------------------------------------------------------
	durs := []int64{0, 1, 999, int64(time.Millisecond), int64(time.Second), int64(30 * time.Second), int64(time.Hour), int64(100 * time.Hour), 1 << 52, 1<<53 + 1, math.MaxInt64 / 4, math.MaxInt64}
	ns := []int{0, 1, 2, 3, 5, 10, 20, 30, 31, 32, 33, 40, 52, 53, 61, 62, 63, 64, 100, 1022, 1023, 1024, 1025, 5000, math.MaxInt32}
	secs := []int64{math.MinInt64, -1, 0, 1, 2, 120, 3600, 9223372035, 9223372036, 9223372037, 9223372038, 1 << 40, math.MaxInt64}
	type bcase struct {
		kind      string
		ra        bool
		min, max  int64
		n         int
		status    int
		hdr       string // model encoding
		hdrValue  string // real header value ("" = absent)
		tolerance int64
		madeAt    time.Time // when the Retry-After date was computed (the wait shrinks as time passes)
		sweep     bool
	}
	var bcs []bcase
	mk := func() bcase {
		a, b := hx.Pick(rnd, durs), hx.Pick(rnd, durs)
		if a > b {
			a, b = b, a
		}
		c := bcase{kind: hx.Pick(rnd, []string{"b", "l", "e"}), ra: rnd.Bool(), min: a, max: b, n: hx.Pick(rnd, ns), status: hx.Pick(rnd, []int{0, 200, 429, 503, 500}), hdr: "-"}
		switch x := rnd.Intn(100); {
		case x < 35:
		case x < 70:
			s := hx.Pick(rnd, secs)
			if rnd.Chance(30) {
				s = int64(rnd.U64() >> uint(rnd.Intn(64)))
			}
			c.hdr, c.hdrValue = "s:"+strconv.FormatInt(s, 10), strconv.FormatInt(s, 10)
		case x < 90:
			delta := time.Duration(rnd.Range(-5000, 5000)) * time.Second
			if rnd.Chance(30) {
				delta = time.Duration(rnd.Range(100, 1000000)) * time.Hour
			}
			t := time.Now().Add(delta).UTC()
			c.hdrValue = t.Format(http.TimeFormat)
			if rnd.Bool() {
				c.hdrValue = t.Format(time.RFC3339)
			}
			c.hdr, c.tolerance, c.madeAt = "d:"+strconv.FormatInt(int64(delta), 10), int64(3*time.Second), time.Now()
		default:
			c.hdr, c.hdrValue = "g", hx.Pick(rnd, []string{"soon", "12s", "1.5", "", " 3", "0x10"})
		}
		return c
	}
	nB := 6000
	if o.Thorough() {
		nB = 400000
	}
	for i := 0; i < nB; i++ {
		bcs = append(bcs, mk())
	}
	// systematic sweep of the exponential policy for monotonicity
	for _, a := range durs {
		for _, b := range durs {
			if a <= b {
				for _, n := range ns {
					bcs = append(bcs, bcase{kind: "e", ra: false, min: a, max: b, n: n, hdr: "-", sweep: true})
				}
				for _, n := range ns {
					bcs = append(bcs, bcase{kind: "e", ra: true, min: a, max: b, n: n, hdr: "-", sweep: true})
				}
			}
		}
	}
	var blines, bwant []string
	var btol []int64
	prevExpo := map[string]int64{}
	for _, c := range bcs {
		cfg := &httpx.RetryPolicyConfiguration{Enabled: true, RetryAfterDisabled: !c.ra, BackOffEnabled: c.kind != "b", LinearBackOffEnabled: c.kind == "l", RetryMax: 3}
		var resp *http.Response
		if c.status != 0 {
			resp = &http.Response{StatusCode: c.status, Header: http.Header{}}
			if c.hdr != "-" {
				resp.Header["Retry-After"] = []string{c.hdrValue}
			}
		}
		got := int64(httpx.BackOffPolicyFactory(cfg).Apply(time.Duration(c.min), time.Duration(c.max), c.n, resp))
		st := "-"
		if c.status != 0 {
			st = strconv.Itoa(c.status)
		}
		hdr := c.hdr
		if c.status == 0 {
			hdr = "-"
		}
		if hdr == "g" && c.hdrValue == "" {
			hdr = "g"
		}
		ra := "0"
		if c.ra {
			ra = "1"
		}
		line := fmt.Sprintf("backoff %s %s %d %d %d %s %s %d 0", c.kind, ra, c.min, c.max, c.n, st, hdr, int64(math.MinInt64))
		hit := c.ra && (c.status == 429 || c.status == 503) && (strings.HasPrefix(hdr, "s:") || strings.HasPrefix(hdr, "d:"))
		rep.Eval(line, hit || c.n > 0)
		rep.Hist("backoff:" + c.kind)
		if hit {
			rep.Hist("retry-after-honoured")
		}
		// ---- monitors -----------------------------------------------------------------------
		if got < 0 {
			key := "negative-wait"
			if c.kind == "l" && !hit && (c.n >= math.MaxInt32 || c.max > math.MaxInt64/int64(c.n+1)) {
				key = "linear-backoff-overflow"
			}
			if hit && strings.HasPrefix(hdr, "s:") {
				if s, _ := strconv.ParseInt(c.hdrValue, 10, 64); s > 9223372036 {
					key = "retry-after-seconds-overflow"
				}
			}
			rep.Fail(hx.Failure{Kind: "impl-violates-property", Key: key, Case: line + " header=" + strconv.Quote(c.hdrValue), Expected: ">= 0", Observed: time.Duration(got).String()})
		}
		if hit && strings.HasPrefix(hdr, "s:") {
			s, _ := strconv.ParseInt(c.hdrValue, 10, 64)
			if s < 0 {
				s = 0
			}
			if s <= 9223372036 && got != s*int64(time.Second) {
				rep.Fail(hx.Failure{Kind: "impl-violates-property", Key: "retry-after-not-exact", Case: line, Expected: strconv.FormatInt(s*int64(time.Second), 10), Observed: strconv.FormatInt(got, 10)})
			}
		}
		if !hit {
			switch c.kind {
			case "b":
				if got != c.min {
					rep.Fail(hx.Failure{Kind: "impl-violates-property", Key: "constant-not-min", Case: line, Expected: strconv.FormatInt(c.min, 10), Observed: strconv.FormatInt(got, 10)})
				}
			case "l":
				hiOK := c.max <= math.MaxInt64/int64(c.n+1) && c.n < math.MaxInt32
				if hiOK && (got < c.min*int64(c.n+1) || got > c.max*int64(c.n+1)) {
					rep.Fail(hx.Failure{Kind: "impl-violates-property", Key: "linear-out-of-range", Case: line, Expected: fmt.Sprintf("[%d,%d]", c.min*int64(c.n+1), c.max*int64(c.n+1)), Observed: strconv.FormatInt(got, 10)})
				}
			case "e":
				// float64(min) is exact only below 2^53 ns (104 days); beyond the property's "0 to hours"
				if c.min < 1<<53 && (got < c.min || got > c.max) {
					rep.Fail(hx.Failure{Kind: "impl-violates-property", Key: "exponential-out-of-range", Case: line, Expected: fmt.Sprintf("[%d,%d]", c.min, c.max), Observed: strconv.FormatInt(got, 10)})
				}
			}
		}
		if c.sweep { // the systematic sweep comes in increasing n
			k := fmt.Sprintf("%v/%d/%d", c.ra, c.min, c.max)
			if p, ok := prevExpo[k]; ok && got < p {
				rep.Fail(hx.Failure{Kind: "impl-violates-property", Key: "exponential-not-monotone", Case: line, Expected: ">= " + strconv.FormatInt(p, 10), Observed: strconv.FormatInt(got, 10)})
			}
			prevExpo[k] = got
		}
		if c.kind == "l" && c.max > c.min && !hit {
			continue // jitter unknown: bounds only
		}
		blines = append(blines, line)
		bwant = append(bwant, strconv.FormatInt(got, 10))
		tol := c.tolerance
		if !c.madeAt.IsZero() {
			tol += int64(time.Since(c.madeAt)) // the cases are generated first (400 000 of them in the thorough tier) and evaluated later
		}
		btol = append(btol, tol)
	}
	// ---- correspondence ----------------------------------------------------------------------
	if drv != nil {
		ans, err := drv.Ask(lines)
		if err != nil {
			rep.Fail(hx.Failure{Kind: "harness-error", Key: "driver", Detail: err.Error()})
		}
		for i, a := range ans {
			if a != want[i] {
				rep.Fail(hx.Failure{Kind: "model-impl-divergence", Key: "retry-loop", Case: lines[i], Expected: "model: " + a, Observed: "impl: " + want[i]})
			} else {
				rep.Hist("loop:model=impl")
			}
		}
		ans, err = drv.Ask(blines)
		if err != nil {
			rep.Fail(hx.Failure{Kind: "harness-error", Key: "driver", Detail: err.Error()})
		}
		for i, a := range ans {
			okk := a == bwant[i]
			if !okk && btol[i] > 0 {
				x, e1 := strconv.ParseInt(a, 10, 64)
				y, e2 := strconv.ParseInt(bwant[i], 10, 64)
				okk = e1 == nil && e2 == nil && x-y < btol[i] && y-x < btol[i]
			}
			if !okk {
				rep.Fail(hx.Failure{Kind: "model-impl-divergence", Key: "backoff", Case: blines[i], Expected: "model: " + a, Observed: "impl: " + bwant[i]})
			} else {
				rep.Hist("backoff:model=impl")
			}
		}
		if len(lines) > 0 && len(blines) > 0 {
			rep.Sample(map[string]string{"line": lines[0], "impl": want[0]})
			rep.Sample(map[string]string{"line": blines[0], "impl": bwant[0]})
		}
	}
	retryClientScenarios(rep, o)
	rep.Write(o.Report, drv)
}
