// Package hx: shared plumbing of the correspondence harness — seeded PRNG, Lean driver pipe,
// report (evaluations, distinct non-trivial cases, histograms, samples, failures).
package hx

import (
	"bufio"
	"encoding/json"
	"flag"
	"fmt"
	"hash/fnv"
	"io"
	"os"
	"os/exec"
	"sort"
	"strings"
	"sync"
)

// ---------------------------------------------------------------- options

type Opts struct {
	Seed   int64
	Tier   string
	Driver string
	Report string
	Replay string
	Extra  map[string]*string
}

func ParseOpts(args []string, extra ...string) *Opts {
	fs := flag.NewFlagSet("h", flag.ExitOnError)
	o := &Opts{Extra: map[string]*string{}}
	fs.Int64Var(&o.Seed, "seed", 1, "PRNG seed")
	fs.StringVar(&o.Tier, "tier", "quick", "quick|thorough")
	fs.StringVar(&o.Driver, "driver", "", "path of the Lean driver executable (empty: monitors only)")
	fs.StringVar(&o.Report, "report", "", "where to write the JSON report")
	fs.StringVar(&o.Replay, "replay", "", "replay file")
	for _, e := range extra {
		o.Extra[e] = fs.String(e, "", "")
	}
	_ = fs.Parse(args)
	return o
}

func (o *Opts) Thorough() bool { return o.Tier == "thorough" }

// ---------------------------------------------------------------- PRNG (splitmix64; one state)

type Rand struct{ s uint64 }

func NewRand(seed int64) *Rand { return &Rand{uint64(seed)*0x9E3779B97F4A7C15 + 0x1234567} }

func (r *Rand) U64() uint64 {
	r.s += 0x9E3779B97F4A7C15
	z := r.s
	z = (z ^ (z >> 30)) * 0xBF58476D1CE4E5B9
	z = (z ^ (z >> 27)) * 0x94D049BB133111EB
	return z ^ (z >> 31)
}
func (r *Rand) Intn(n int) int {
	if n <= 0 {
		return 0
	}
	return int(r.U64() % uint64(n))
}
func (r *Rand) Bool() bool          { return r.U64()&1 == 1 }
func (r *Rand) Chance(p int) bool   { return r.Intn(100) < p }
func (r *Rand) Range(lo, hi int) int { return lo + r.Intn(hi-lo+1) }
func (r *Rand) Fork() *Rand          { return &Rand{r.U64()} }
func Pick[T any](r *Rand, xs []T) T  { return xs[r.Intn(len(xs))] }

// ---------------------------------------------------------------- Lean driver

type Driver struct {
	cmd *exec.Cmd
	in  *bufio.Writer
	out *bufio.Reader
	mu  sync.Mutex
	N   int
}

func StartDriver(path string) (*Driver, error) {
	if path == "" {
		return nil, nil
	}
	cmd := exec.Command(path)
	stdin, err := cmd.StdinPipe()
	if err != nil {
		return nil, err
	}
	stdout, err := cmd.StdoutPipe()
	if err != nil {
		return nil, err
	}
	cmd.Stderr = os.Stderr
	if err := cmd.Start(); err != nil {
		return nil, err
	}
	return &Driver{cmd: cmd, in: bufio.NewWriterSize(stdin, 1<<20), out: bufio.NewReaderSize(stdout, 1<<20)}, nil
}

// Ask sends the lines and returns one answer per line. Lines are written by a separate goroutine
// (so neither side can block on a full pipe) and terminated by a `sync` line that makes the
// driver flush its output.
func (d *Driver) Ask(lines []string) ([]string, error) {
	d.mu.Lock()
	defer d.mu.Unlock()
	for _, l := range lines {
		if strings.ContainsAny(l, "\n\r") {
			return nil, fmt.Errorf("line contains newline: %q", l)
		}
	}
	werr := make(chan error, 1)
	go func() {
		for _, l := range lines {
			d.in.WriteString(l)
			d.in.WriteByte('\n')
		}
		d.in.WriteString("sync\n")
		werr <- d.in.Flush()
	}()
	res := make([]string, 0, len(lines))
	for k := 0; k <= len(lines); k++ {
		s, err := d.out.ReadString('\n')
		if err != nil {
			return nil, fmt.Errorf("driver died after %d answers: %v", len(res), err)
		}
		s = strings.TrimRight(s, "\n")
		if k == len(lines) {
			if s != "synced" {
				return nil, fmt.Errorf("driver out of sync: got %q", s)
			}
			break
		}
		res = append(res, s)
	}
	if err := <-werr; err != nil {
		return nil, err
	}
	d.N += len(lines)
	return res, nil
}

func (d *Driver) Ask1(line string) (string, error) {
	r, err := d.Ask([]string{line})
	if err != nil {
		return "", err
	}
	return r[0], nil
}

func (d *Driver) Close() {
	if d == nil {
		return
	}
	d.in.Flush()
	if c, ok := d.cmd.Stdin.(io.Closer); ok {
		c.Close()
	}
	_ = d.cmd.Process.Kill()
	_ = d.cmd.Wait()
}

// ---------------------------------------------------------------- report

type Failure struct {
	Kind     string `json:"kind"` // impl-violates-property | model-impl-divergence | harness-error
	Key      string `json:"key"`  // classifier key (stable signature of the failing case)
	Case     string `json:"case"`
	Expected string `json:"expected,omitempty"`
	Observed string `json:"observed,omitempty"`
	Detail   string `json:"detail,omitempty"`
}

type Report struct {
	mu          sync.Mutex
	Evaluations int            `json:"evaluations"`
	Distinct    int            `json:"distinct_nontrivial"`
	Rule        string         `json:"rule"`
	Samples     []any          `json:"samples"`
	Histogram   map[string]int `json:"histogram"`
	DriverLines int            `json:"driver_lines"`
	Failures    []Failure      `json:"failures"`
	FailTotal   map[string]int `json:"failures_total"`
	seen        map[uint64]struct{}
	auto        []any // the first distinct non-trivial cases, written out as samples when the harness recorded none itself
}

func NewReport(rule string) *Report {
	return &Report{Rule: rule, Histogram: map[string]int{}, FailTotal: map[string]int{}, seen: map[uint64]struct{}{}, Samples: []any{}, Failures: []Failure{}}
}

// Eval counts one evaluated case; canon is its canonical text; nontrivial by the check's rule.
func (r *Report) Eval(canon string, nontrivial bool) {
	r.mu.Lock()
	defer r.mu.Unlock()
	r.Evaluations++
	if !nontrivial {
		return
	}
	h := fnv.New64a()
	h.Write([]byte(canon))
	k := h.Sum64()
	if _, ok := r.seen[k]; !ok {
		r.seen[k] = struct{}{}
		r.Distinct++
		if len(r.auto) < 8 {
			c := canon
			if len(c) > 600 {
				c = c[:600] + "…"
			}
			r.auto = append(r.auto, c)
		}
	}
}

func (r *Report) Hist(key string) {
	r.mu.Lock()
	r.Histogram[key]++
	r.mu.Unlock()
}
func (r *Report) HistN(key string, n int) {
	r.mu.Lock()
	r.Histogram[key] += n
	r.mu.Unlock()
}

func (r *Report) Sample(s any) {
	r.mu.Lock()
	if len(r.Samples) < 100 {
		r.Samples = append(r.Samples, s)
	}
	r.mu.Unlock()
}

func (r *Report) Fail(f Failure) {
	r.mu.Lock()
	defer r.mu.Unlock()
	r.FailTotal[f.Kind+"/"+f.Key]++
	if r.FailTotal[f.Kind+"/"+f.Key] <= 5 && len(r.Failures) < 200 {
		if len(f.Case) > 4000 {
			f.Case = f.Case[:4000] + "…"
		}
		r.Failures = append(r.Failures, f)
	}
}

func (r *Report) Write(path string, d *Driver) {
	if d != nil {
		r.DriverLines = d.N
	}
	sort.SliceStable(r.Failures, func(i, j int) bool { return r.Failures[i].Kind < r.Failures[j].Kind })
	if len(r.Samples) == 0 && len(r.auto) > 0 {
		r.Samples = r.auto
	}
	b, _ := json.MarshalIndent(r, "", " ")
	if path == "" {
		os.Stdout.Write(b)
		return
	}
	if err := os.WriteFile(path, b, 0o644); err != nil {
		fmt.Fprintln(os.Stderr, "report:", err)
		os.Exit(3)
	}
}

// ---------------------------------------------------------------- replay

// ReplayCases returns the cases recorded in a replay file: every JSON string (at any depth) or, for a
// plain text file, every line that starts with prefix; a trailing " [..." annotation is dropped.
func ReplayCases(path, prefix string) []string {
	raw, err := os.ReadFile(path)
	if err != nil {
		return nil
	}
	var out []string
	seen := map[string]bool{}
	add := func(s string) {
		s = strings.TrimSpace(s)
		if !strings.HasPrefix(s, prefix) {
			return
		}
		if i := strings.Index(s, " ["); i >= 0 {
			s = s[:i]
		}
		if !seen[s] {
			seen[s] = true
			out = append(out, s)
		}
	}
	var v interface{}
	if json.Unmarshal(raw, &v) == nil {
		var walk func(x interface{})
		walk = func(x interface{}) {
			switch t := x.(type) {
			case string:
				add(t)
			case []interface{}:
				for _, e := range t {
					walk(e)
				}
			case map[string]interface{}:
				for _, e := range t {
					walk(e)
				}
			}
		}
		walk(v)
		return out
	}
	for _, l := range strings.Split(string(raw), "\n") {
		add(l)
	}
	return out
}
